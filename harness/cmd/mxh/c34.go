//go:build prop_c34 || prop_all

package main

// C34 — Autocomplete never runs a line containing unsafe commands.
// For each typed line: parser.Parse(line, 0) gives the verdict (Unsafe) and the
// slice Source[:LastFlowToken] that shell/autocomplete/dynamic.go would execute;
// the real block parser is run on that slice and every command of its tree is
// collected (recursively through { } parameters).

import (
	"encoding/json"
	"math/rand"
	"strings"
	"time"

	"github.com/lmorg/murex/lang"
	"github.com/lmorg/murex/lang/expressions"
	"github.com/lmorg/murex/utils/parser"

	"verifharness/coqlit"
)

type c34 struct{}

func init() { register("C34", c34{}) }

type c34Obs struct {
	Unsafe     bool     `json:"unsafe"`
	FuncName   string   `json:"func"`
	ExpectFunc bool     `json:"expect_func"`
	LastFlow   int      `json:"last_flow"`
	Executed   string   `json:"executed,omitempty"`
	ParseErr   bool     `json:"parse_err"`
	Cmds       []string `json:"cmds"`
	SubShell   bool     `json:"subshell"`
	Redirect   bool     `json:"redirect"`
	AllCmds    []string `json:"all_cmds,omitempty"` // grammar cases: commands of ParseBlock(whole line)
	AllErr     bool     `json:"all_err,omitempty"`
}

// c34Walk collects the commands of block, recursively.
func c34Walk(block []rune, depth int, o *c34Obs) (ok bool) {
	type res struct {
		cmds [][]rune
		pars [][][]rune
		pipes []int
		err  bool
	}
	ch := make(chan res, 1)
	go func() {
		defer func() {
			if recover() != nil {
				ch <- res{err: true}
			}
		}()
		fns, err := expressions.ParseBlock(append([]rune(nil), block...))
		if err != nil {
			ch <- res{err: true}
			return
		}
		var r res
		for _, f := range *fns {
			r.cmds = append(r.cmds, f.Command)
			r.pars = append(r.pars, f.Parameters)
			r.pipes = append(r.pipes, len(f.NamedPipes))
		}
		ch <- r
	}()
	var r res
	select {
	case r = <-ch:
	case <-time.After(5 * time.Second):
		r = res{err: true}
	}
	if r.err {
		return false
	}
	for i, c := range r.cmds {
		// parsed without executing, a `name:` command keeps its colon in the tree; the command that runs is `name`
		name := strings.TrimSuffix(string(c), ":")
		// the expression statement consisting of the single literal true / false / null is the
		// command of that name as far as this property is concerned (it evaluates the literal)
		if name == lang.ExpressionFunctionName && len(r.pars[i]) == 1 {
			switch lit := strings.TrimSpace(string(r.pars[i][0])); lit {
			case "true", "false", "null":
				name = lit
			}
		}
		o.Cmds = append(o.Cmds, name)
		if r.pipes[i] > 0 || name == "<pipe>" {
			o.Redirect = true
		}
		for _, p := range r.pars[i] {
			s := strings.TrimSpace(string(p))
			if !strings.HasPrefix(s, "'") && !strings.HasPrefix(s, "(") && (strings.Contains(s, "${") || strings.Contains(s, "@{")) {
				o.SubShell = true
			}
			if depth < 6 && len(s) >= 2 && s[0] == '{' && s[len(s)-1] == '}' {
				c34Walk([]rune(s[1:len(s)-1]), depth+1, o) // an inner block that does not parse never runs
			}
		}
	}
	return true
}

func c34Observe(src []rune) c34Obs {
	pt, _ := parser.Parse(append([]rune(nil), src...), 0)
	o := c34Obs{Unsafe: pt.Unsafe, FuncName: pt.FuncName, ExpectFunc: pt.ExpectFunc, LastFlow: pt.LastFlowToken, Cmds: []string{}}
	if pt.Unsafe || pt.LastFlowToken < 0 || pt.LastFlowToken > len(src) {
		return o
	}
	exe := src[:pt.LastFlowToken]
	o.Executed = string(exe)
	o.ParseErr = !c34Walk(exe, 0, &o)
	return o
}

func (c34) Run(raw json.RawMessage) Result {
	var c c34GCase
	if err := json.Unmarshal(raw, &c); err != nil {
		die("C34: bad case: %v", err)
	}
	src := c.runes()
	o := c34Observe(src)
	lineTerm := "None"
	if c.G != nil {
		if c.G.render() != string(src) {
			die("C34: grammar case does not render to its runes")
		}
		var all c34Obs
		o.AllErr = !c34Walk(src, 0, &all)
		o.AllCmds = all.Cmds
		lineTerm = "(Some " + c.G.coq() + ")"
	}
	allCmds := make([]string, len(o.AllCmds))
	for i, s := range o.AllCmds {
		allCmds[i] = tokRunes([]rune(s))
	}
	cmds := make([]string, len(o.Cmds))
	for i, s := range o.Cmds {
		cmds[i] = tokRunes([]rune(s))
	}
	coq := coqlit.Record("c_src", tokRunes(src), "c_unsafe", coqlit.Bool(o.Unsafe), "c_func", tokRunes([]rune(o.FuncName)),
		"c_expect_func", coqlit.Bool(o.ExpectFunc), "c_last_flow", coqlit.Z(int64(o.LastFlow)),
		"c_perr", coqlit.Bool(o.ParseErr), "c_cmds", coqlit.List(cmds), "c_subshell", coqlit.Bool(o.SubShell),
		"c_redirect", coqlit.Bool(o.Redirect),
		"c_line", lineTerm, "c_all_cmds", coqlit.List(allCmds), "c_all_perr", coqlit.Bool(o.AllErr))
	cls := "unsafe"
	if c.G != nil {
		cls = "grammar/unsafe"
	}
	if !o.Unsafe {
		switch {
		case o.LastFlow == 0:
			cls = "safe/nothing-to-run"
		case o.ParseErr:
			cls = "safe/does-not-parse"
		default:
			cls = "safe/runs"
		}
		if c.G != nil {
			cls = "grammar/" + cls
		}
	}
	return Result{Obs: o, Coq: coq, Nontrivial: !o.Unsafe && o.LastFlow > 0 && !o.ParseErr, Class: cls}
}

// ---- generation ----

var c34Unsafe = []string{"rm", "sh", "exec", "cat", "bg", "fexec", "source", "export", "set", "let", "cd", "kill", "et", "s", "n-summary", "mm", "x", "!rm", "tee"}
var c34Seps = []string{";", "|", " | ", "; ", " ;", "->", " -> ", "=>", " => ", "&&", " && ", "||", " || ", "?:", " ?: ", "{", " { ", "}", " }", "\n", " ? ", ":", ": "}
var c34Params = []string{"", " a", " -x", " a b", " 'q r'", " \"dq\"", " (p q)", " $v", " @a", " ${out x}", " @{ja 3}", " \"${rm x}\"", " <f>", " <!out>",
	" > f", " >> f", " |> f", ">>f", " = 1", " = rm", " += 1", " ++", " := 2", " == 1", " ~> f", " \\; rm", " \\| rm", " # c", " { rm x }", " { out x }", " {rm}",
	" [0]", " [[ /a ]]", " %[1 2]", " -", " *", " ?", " a=b", " a:b", ": a", " 1+1", " (", " {"}

func (c34) Gen(seed int64, tier string, emit func(any)) {
	e := func(s string) { emit(tokMk([]rune(s), 0)) }
	safe := parser.GetSafeCmds()
	// design-phase witnesses
	for _, w := range []string{"g;et x | out ", "o|s x | out ", "ma|n-summary x | out ", "rm;get x | out ", "if{rm x} | out ", "g->et x | out ",
		"a = 5 | out ", "out = rm | out ", "f += 1 | out ", "out hello | out ", "rm x | out ", "out ${rm x} | out "} {
		e(w)
	}
	// every safe name split at every position by every separator
	thorough := tier == "thorough"
	for i, s := range safe {
		if !thorough && i%4 != int(seed&3) {
			continue
		}
		for k := 1; k < len(s); k++ {
			for _, sep := range []string{";", "|", "->", "&&", "{", "\n", "?:", "=>"} {
				e(s[:k] + sep + s[k:] + " x | out ")
			}
		}
	}
	// cmd1 param sep cmd2 param | out␣   (small exhaustive grid)
	grid := []string{"out", "g", "rm", "get", "a", "sh"}
	for _, c1 := range grid {
		for _, sep := range c34Seps {
			for _, c2 := range grid {
				if thorough || (len(c1)+len(sep)+len(c2))%2 == 0 {
					e(c1 + sep + c2 + " x | out ")
					e(c1 + " a" + sep + c2 + " | out ")
				}
			}
		}
		for _, p := range c34Params {
			e(c1 + p + " | out ")
			e(c1 + p + "| out ")
			e(c1 + p + " -> out ")
		}
	}
	rng := rand.New(rand.NewSource(seed))
	n := 1200
	if thorough {
		n = 15000
	}
	name := func() string {
		if rng.Intn(4) == 0 {
			return c34Unsafe[rng.Intn(len(c34Unsafe))]
		}
		return safe[rng.Intn(len(safe))]
	}
	for i := 0; i < n; i++ {
		var b strings.Builder
		k := 1 + rng.Intn(4)
		for j := 0; j < k; j++ {
			if rng.Intn(6) == 0 {
				b.WriteString(" ")
			}
			b.WriteString(name())
			for p := rng.Intn(3); p > 0; p-- {
				b.WriteString(c34Params[rng.Intn(len(c34Params))])
			}
			b.WriteString(c34Seps[rng.Intn(len(c34Seps))])
		}
		b.WriteString(name())
		if rng.Intn(2) == 0 {
			b.WriteString(" ")
		}
		if rng.Intn(10) == 0 { // free-form tail
			b.WriteString(string(tokRandFragments(rng, 4)))
		}
		e(b.String())
	}
	// `?` attached to a word on either side, and every white-space-like rune between a name
	// and what follows (the block parser separates on space, tab and CR; FF and VT are word runes)
	for _, c1 := range []string{"out", "rm", "g"} {
		for _, q := range []string{"?", " ?", "? ", " ? ", "\t?", "?\t", "a?", "a? ", " a?b ", "?b ", "\r? "} {
			for _, c2 := range []string{"rm", "out", "et"} {
				e(c1 + " x" + q + c2 + " y | out ")
				e(c1 + q + c2 + " y | out ")
			}
		}
		for _, ws := range []string{"\t", "\f", "\v", "\r", " \t", "\r ", "\f ", " \v", "\t\t"} {
			for _, c2 := range []string{"rm", "out"} {
				e(c1 + ws + c2 + " y | out ")
				e(c1 + " a;" + ws + c2 + ws + "y | out ")
				e(c1 + ws + "a" + ws + "|" + ws + c2 + ws + "y | out ")
			}
		}
	}
	c34GenGrammar(seed, tier, emit)
}

func (c34) Shrink(raw json.RawMessage) []any {
	return tokShrink(raw)
}
