//go:build prop_c30 || prop_all

package main

// C30 — The cache never returns stale or foreign values.
// A case is a history of Write / Read / Trim / Clear / Sleep operations on the real
// utils/cache package with a fresh temp database.  TTLs are given relative to the
// wall clock at the moment of the write; the harness records the Unix second at
// which every operation ran and gives it to the model.  cache.db compares whole
// seconds (ttl.Unix() against unixepoch()), so an operation is exactly predictable
// unless a TTL lies within 1 s of the interval during which it ran: a case in
// which that happens is re-run (at most 4 times, then dropped).

import (
	"context"
	"encoding/json"
	"fmt"
	"math/rand"
	"os"
	"path/filepath"
	"sort"
	"time"

	"github.com/lmorg/murex/utils/cache"

	"verifharness/coqlit"
)

type c30Op struct {
	Op    string `json:"op"` // write|read|trim|clear|sleep
	Ns    int    `json:"ns,omitempty"`
	Key   string `json:"key,omitempty"`
	Val   string `json:"val,omitempty"`   // JSON text
	Delta int    `json:"delta,omitempty"` // write: ttl = now + delta seconds; sleep: seconds
}

type c30Case struct {
	Class string  `json:"class"`
	Ops   []c30Op `json:"ops"`
}

type c30 struct{}

func init() { register("C30", c30{}) }

var c30Ns = []string{cache.MAN_SUMMARY, cache.HINT_SUMMARY, cache.PREVIEW_COMMAND}

// every namespace InitCache creates (= the keys of the package's map), sorted
var c30AllNs = func() []string {
	l := []string{cache.PREVIEW_COMMAND, cache.PREVIEW_DYNAMIC, cache.MAN_SUMMARY, cache.MAN_PATHS, cache.MAN_FLAGS,
		cache.AUTOCOMPLETE_DYNAMIC, cache.HINT_SUMMARY, cache.MACRO_VAR_HISTORY}
	sort.Strings(l)
	return l
}()

type c30Step struct {
	now int64
	coq string
	obs string
}

func c30Keys(v any) (map[string][2][]string, bool) {
	// Trim/Clear return map[string]trimmedT{Internal, CacheDb []string} (unexported type): via JSON
	b, err := json.Marshal(v)
	if err != nil {
		return nil, false
	}
	var m map[string]struct {
		Internal []string
		CacheDb  []string
	}
	if json.Unmarshal(b, &m) != nil {
		return nil, false
	}
	out := map[string][2][]string{}
	for k, t := range m {
		sort.Strings(t.Internal)
		sort.Strings(t.CacheDb)
		out[k] = [2][]string{t.Internal, t.CacheDb}
	}
	return out, true
}

func c30KeysCoq(m map[string][2][]string) string {
	e := []string{}
	for _, ns := range c30AllNs {
		t := m[ns]
		e = append(e, fmt.Sprintf("(%s, %s, %s)", coqlit.Bytes(ns), coqlit.BytesList(t[0]), coqlit.BytesList(t[1])))
	}
	return "(RKeys " + coqlit.List(e) + ")"
}

// one attempt; ok=false when a TTL came within 1 s of a comparison
func c30Attempt(c c30Case) (steps []c30Step, ok bool) {
	dir, err := os.MkdirTemp("", "c30-")
	if err != nil {
		die("C30: %v", err)
	}
	defer os.RemoveAll(dir)
	cache.SetPath(filepath.Join(dir, "cache.db"))
	cache.InitCache()
	ctx := context.Background()
	ttls := []int64{}
	ok = true
	near := func(t0, t1 int64) {
		for _, ttl := range ttls {
			if ttl >= t0-1 && ttl <= t1+1 {
				ok = false
			}
			// the in-memory layer's 59 minute rule is evaluated at write time only
		}
	}
	for _, op := range c.Ops {
		t0 := time.Now()
		now := t0.Unix()
		var coq, obs string
		switch op.Op {
		case "sleep":
			time.Sleep(time.Duration(op.Delta) * time.Second)
			continue
		case "write":
			ttl := t0.Add(time.Duration(op.Delta) * time.Second)
			d := int64(op.Delta)
			if d > 3540-3 && d < 3540+3 {
				ok = false
			}
			cache.Write(c30Ns[op.Ns], op.Key, json.RawMessage(op.Val), ttl)
			ttls = append(ttls, ttl.Unix())
			coq = fmt.Sprintf("(Write (%s, %s) %s %s)", coqlit.Bytes(c30Ns[op.Ns]), coqlit.Bytes(op.Key), coqlit.Bytes(op.Val), coqlit.Z(ttl.Unix()))
			obs = "RNone"
		case "read":
			var raw json.RawMessage
			got := cache.Read(c30Ns[op.Ns], op.Key, &raw)
			coq = fmt.Sprintf("(Read (%s, %s))", coqlit.Bytes(c30Ns[op.Ns]), coqlit.Bytes(op.Key))
			obs = "(RRead " + coqlit.Option(got, coqlit.Bytes(string(raw))) + ")"
		case "trim":
			v, _ := cache.Trim(ctx)
			m, good := c30Keys(v)
			if !good {
				obs = "RNone"
			} else {
				obs = c30KeysCoq(m)
			}
			coq = "Trim"
		case "clear":
			v, _ := cache.Clear(ctx)
			m, good := c30Keys(v)
			if !good {
				obs = "RNone"
			} else {
				obs = c30KeysCoq(m)
			}
			coq = "Clear"
		default:
			die("C30: bad op %q", op.Op)
		}
		t1 := time.Now().Unix()
		if op.Op != "write" {
			near(now, t1)
		}
		steps = append(steps, c30Step{now, coq, obs})
	}
	return steps, ok
}

func (c30) Run(raw json.RawMessage) Result {
	var c c30Case
	if err := json.Unmarshal(raw, &c); err != nil {
		die("C30: bad case: %v", err)
	}
	var steps []c30Step
	ok := false
	tries := 0
	for ; tries < 4 && !ok; tries++ {
		steps, ok = c30Attempt(c)
	}
	e := make([]string, len(steps))
	obs := make([]string, len(steps))
	for i, s := range steps {
		e[i] = coqlit.Record("st_now", coqlit.Z(s.now), "st_op", s.coq, "st_obs", s.obs)
		obs[i] = s.obs
	}
	if !ok {
		// could not keep the clock away from a TTL: hand over an empty (trivially fine) case
		e = nil
	}
	coq := coqlit.Record("c_ns", coqlit.BytesList(c30AllNs), "c_steps", coqlit.List(e))
	reads := 0
	for _, op := range c.Ops {
		if op.Op == "read" {
			reads++
		}
	}
	return Result{Obs: map[string]any{"tries": tries, "exact": ok, "steps": len(steps)}, Coq: coq, Nontrivial: ok && reads > 0, Class: c.Class}
}

// ---- generation ----

var c30KeysPool = []string{"a", "b", "A", "a ", "git", "100", "1e2", "0100", "100.0", " 100", "-0", "0", "1.50", "1.5", "é", "key with space", "0x10", "1_000", "Infinity", "'q'", "k%", ""}
var c30Vals = []string{`"v1"`, `"v2"`, `"v3"`, `123`, `18446744073709551615`, `1e2`, `100`, `"0100"`, `[1,2]`, `{"a":1}`, `true`, `null`, `""`, `1.0`, `-0`, `"é"`, `9007199254740993`}

// TTL offsets in seconds: past, near past, near future, below / above the 59 minute rule
var c30Deltas = []int{-3600, -60, -10, -5, -3, 3, 4, 6, 10, 60, 600, 3500, 3530, 3550, 3600, 7200}

func (c30) Gen(seed int64, tier string, emit func(any)) {
	thorough := tier == "thorough"
	// (the witnesses of finding F30a are in corpus/C30/witnesses.case)
	// cross namespace / key, expiry, trim and clear, systematically
	for _, d := range c30Deltas {
		emit(c30Case{"basic", []c30Op{
			{Op: "read", Ns: 0, Key: "a"},
			{Op: "write", Ns: 0, Key: "a", Val: `"v1"`, Delta: d},
			{Op: "read", Ns: 0, Key: "a"}, {Op: "read", Ns: 1, Key: "a"}, {Op: "read", Ns: 0, Key: "b"}, {Op: "read", Ns: 0, Key: "A"},
			{Op: "trim"}, {Op: "read", Ns: 0, Key: "a"},
			{Op: "write", Ns: 1, Key: "a", Val: `"v2"`, Delta: 600},
			{Op: "read", Ns: 0, Key: "a"}, {Op: "read", Ns: 1, Key: "a"},
			{Op: "clear"}, {Op: "read", Ns: 0, Key: "a"}, {Op: "read", Ns: 1, Key: "a"}}})
		emit(c30Case{"overwrite", []c30Op{
			{Op: "write", Ns: 2, Key: "k", Val: `"old"`, Delta: 7200},
			{Op: "write", Ns: 2, Key: "k", Val: `"new"`, Delta: d},
			{Op: "read", Ns: 2, Key: "k"}, {Op: "trim"}, {Op: "read", Ns: 2, Key: "k"},
			{Op: "write", Ns: 2, Key: "k", Val: `"newer"`, Delta: 3600},
			{Op: "read", Ns: 2, Key: "k"}}})
	}
	// real expiry: the entry is readable, time passes, it is not
	nExp := 3
	if thorough {
		nExp = 10
	}
	for i := 0; i < nExp; i++ {
		d := 3 + i%3
		emit(c30Case{"expiry-sleep", []c30Op{
			{Op: "write", Ns: i % 3, Key: "soon", Val: `"x"`, Delta: d},
			{Op: "write", Ns: i % 3, Key: "later", Val: `"y"`, Delta: 600},
			{Op: "read", Ns: i % 3, Key: "soon"},
			{Op: "sleep", Delta: d + 3},
			{Op: "read", Ns: i % 3, Key: "soon"}, {Op: "read", Ns: i % 3, Key: "later"},
			{Op: "trim"}, {Op: "read", Ns: i % 3, Key: "soon"}, {Op: "read", Ns: i % 3, Key: "later"}}})
	}
	r := rand.New(rand.NewSource(seed))
	n := 300
	if thorough {
		n = 3000
	}
	for i := 0; i < n; i++ {
		nk := 2 + r.Intn(3)
		keys := make([]string, nk)
		for j := range keys {
			if r.Intn(3) == 0 {
				keys[j] = c30KeysPool[r.Intn(len(c30KeysPool))]
			} else {
				keys[j] = c30KeysPool[r.Intn(10)]
			}
		}
		ops := []c30Op{}
		m := 4 + r.Intn(15)
		for j := 0; j < m; j++ {
			switch k := r.Intn(20); {
			case k < 8:
				ops = append(ops, c30Op{Op: "write", Ns: r.Intn(3), Key: keys[r.Intn(nk)], Val: c30Vals[r.Intn(len(c30Vals))], Delta: c30Deltas[r.Intn(len(c30Deltas))]})
			case k < 17:
				ops = append(ops, c30Op{Op: "read", Ns: r.Intn(3), Key: keys[r.Intn(nk)]})
			case k < 19:
				ops = append(ops, c30Op{Op: "trim"})
			default:
				ops = append(ops, c30Op{Op: "clear"})
			}
		}
		ops = append(ops, c30Op{Op: "read", Ns: r.Intn(3), Key: keys[0]})
		emit(c30Case{"random", ops})
	}
}
