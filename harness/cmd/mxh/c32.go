//go:build prop_c32 || prop_all

package main

// C32 — Running murex code causes no data races.
//
// Static side: Gen/Lockset.v (translator) + Coq theorem lockset_sound.
// Dynamic side (this file): concurrent scenarios executed in a child process that is
// a RACE-DETECTOR build of this same harness (`go build -race`, produced by `gen`
// from the tree under check). Two kinds of case:
//
//   pair   two operations of one anchored struct run concurrently on one shared
//          instance, many fresh instances in a row; observation = did the race
//          detector report a data race, and between which murex functions
//   prog   a generated concurrent murex program (pipelines, functions, bg jobs,
//          named pipes, foreach --parallel) run several times under perturbation
//
// The Coq case is (method a, method b, race reported?, racing functions).

import (
	"bytes"
	"encoding/json"
	"fmt"
	"math/rand"
	"os"
	"os/exec"
	"path/filepath"
	"regexp"
	"sort"
	"strings"
	"sync"
	"time"

	"github.com/lmorg/murex/builtins/pipes/streams"
	"github.com/lmorg/murex/config"
	"github.com/lmorg/murex/lang"
	"github.com/lmorg/murex/lang/parameters"
	"github.com/lmorg/murex/lang/pipes"
	"github.com/lmorg/murex/lang/types"
)

type c32Case struct {
	Kind  string `json:"kind"` // pair | prog
	S     string `json:"s,omitempty"`
	A     string `json:"a,omitempty"`
	B     string `json:"b,omitempty"`
	Src   string `json:"src,omitempty"`
	Iters int    `json:"iters"`
	Seed  int64  `json:"seed"`
}

type c32Obs struct {
	Race    bool     `json:"race"`
	Funcs   []string `json:"funcs,omitempty"` // murex functions on top of the two racing stacks
	Reports int      `json:"reports"`
	Failed  string   `json:"failed,omitempty"`
}

type c32 struct{}

func init() { register("C32", c32{}) }

// ---------- scenario tables: struct -> operation name -> Coq method name ----------

type c32Op struct {
	name   string // operation name
	method string // the translator's name of the method it exercises
	run    func(inst any, k int)
}

type c32Struct struct {
	name string
	mk   func() any
	ops  []c32Op
}

var c32ParseArgs = &parameters.Arguments{AllowAdditional: true, Flags: map[string]string{"--jmap": types.Boolean, "-j": "--jmap", "--step": types.Integer}}

func c32Structs() []c32Struct {
	return []c32Struct{
		{"Stdin", func() any { return streams.NewStdin() }, []c32Op{
			{"OpenClose", "streams.Stdin.Open", func(i any, k int) { s := i.(*streams.Stdin); s.Open(); s.Close() }},
			{"Write", "streams.Stdin.Write", func(i any, k int) { i.(*streams.Stdin).Write([]byte("ab\n")) }},
			{"WriteRead", "streams.Stdin.Read", func(i any, k int) {
				s := i.(*streams.Stdin)
				s.Write([]byte("xy\n"))
				s.Read(make([]byte, 2))
			}},
			{"ReadAll", "streams.Stdin.ReadAll", func(i any, k int) { i.(*streams.Stdin).ReadAll() }},
			{"Stats", "streams.Stdin.Stats", func(i any, k int) { i.(*streams.Stdin).Stats() }},
			{"GetDataType", "streams.Stdin.GetDataType", func(i any, k int) { i.(*streams.Stdin).GetDataType() }},
			{"GetDataTypeCancelled", "streams.Stdin.GetDataType", func(i any, k int) {
				s := i.(*streams.Stdin)
				s.ForceClose()
				s.GetDataType()
			}},
			{"SetDataType", "streams.Stdin.SetDataType", func(i any, k int) { i.(*streams.Stdin).SetDataType("str") }},
			{"ForceClose", "streams.Stdin.ForceClose", func(i any, k int) { i.(*streams.Stdin).ForceClose() }},
		}},
		{"Named", func() any {
			n := pipes.NewNamed()
			n.CreatePipe("p", "std", "")
			n.CreatePipe("d", "std", "") // Delete's target: Get("p") must never miss (a miss waits 5 x 100 ms)
			return &n
		}, []c32Op{
			{"CreatePipe", "pipes.Named.CreatePipe", func(i any, k int) { i.(*pipes.Named).CreatePipe("q", "std", "") }},
			{"ExposePipe", "pipes.Named.ExposePipe", func(i any, k int) { i.(*pipes.Named).ExposePipe("e", "std", streams.NewStdin()) }},
			{"Get", "pipes.Named.Get", func(i any, k int) { i.(*pipes.Named).Get("p") }},
			{"Dump", "pipes.Named.Dump", func(i any, k int) { i.(*pipes.Named).Dump() }},
			{"Delete", "pipes.Named.Delete", func(i any, k int) { i.(*pipes.Named).Delete("d") }},
		}},
		{"Config", func() any {
			c := config.InitConf
			c.Define("c32", "plain", config.Properties{Description: "d", Default: "x", DataType: types.String})
			c.Define("c32", "dyn", config.Properties{Description: "d", Default: "x", DataType: types.String,
				Dynamic: config.DynamicProperties{Read: "r", Write: "w",
					GetDynamic: func() (any, int, error) { return "v", 0, nil },
					SetDynamic: func(any) (int, error) { return 0, nil }}})
			c.Define("c32", "gofn", config.Properties{Description: "d", Default: "x", DataType: types.String,
				GoFunc: config.GoFuncProperties{Read: func() (any, error) { return "v", nil }, Write: func(any) error { return nil }}})
			return c
		}, []c32Op{
			{"Define", "config.Config.Define", func(i any, k int) {
				i.(*config.Config).Define("c32", fmt.Sprintf("k%d", k%7), config.Properties{Description: "d", Default: "x", DataType: types.String})
			}},
			{"SetPlain", "config.Config.Set", func(i any, k int) { i.(*config.Config).Set("c32", "plain", "y", nil) }},
			{"SetDynamic", "config.Config.Set", func(i any, k int) { i.(*config.Config).Set("c32", "dyn", "y", nil) }},
			{"SetGoFunc", "config.Config.Set", func(i any, k int) { i.(*config.Config).Set("c32", "gofn", "y", nil) }},
			{"Get", "config.Config.GetFileRef", func(i any, k int) { i.(*config.Config).Get("c32", "plain", types.String) }},
			{"GetDynamic", "config.Config.GetFileRef", func(i any, k int) { i.(*config.Config).Get("c32", "dyn", types.String) }},
			{"DataType", "config.Config.DataType", func(i any, k int) { i.(*config.Config).DataType("c32", "plain") }},
			{"Default", "config.Config.Default", func(i any, k int) { i.(*config.Config).Default("c32", "plain", nil) }},
			{"ExistsAndGlobal", "config.Config.ExistsAndGlobal", func(i any, k int) { i.(*config.Config).ExistsAndGlobal("c32", "plain") }},
			{"DumpRuntime", "config.Config.DumpRuntime", func(i any, k int) { i.(*config.Config).DumpRuntime() }},
			{"DumpConfig", "config.Config.DumpConfig", func(i any, k int) { i.(*config.Config).DumpConfig() }},
		}},
		{"Parameters", func() any {
			p := new(parameters.Parameters)
			p.DefineParsed([]string{"-j", "a", "b"})
			p.PreParsed = [][]rune{[]rune("-j"), []rune("a"), []rune("b")}
			return p
		}, []c32Op{
			{"DefineParsed", "parameters.Params.DefineParsed", func(i any, k int) { i.(*parameters.Parameters).DefineParsed([]string{"-j", "c"}) }},
			{"Prepend", "parameters.Params.Prepend", func(i any, k int) { i.(*parameters.Parameters).Prepend([]string{"z"}) }},
			{"CopyFrom", "parameters.Params.CopyFrom", func(i any, k int) {
				src := new(parameters.Parameters)
				src.DefineParsed([]string{"-j", "s"})
				i.(*parameters.Parameters).CopyFrom(src)
			}},
			{"String", "parameters.Params.String", func(i any, k int) { i.(*parameters.Parameters).String(0) }},
			{"StringArray", "parameters.Params.StringArray", func(i any, k int) { i.(*parameters.Parameters).StringArray() }},
			{"StringAll", "parameters.Params.StringAll", func(i any, k int) { i.(*parameters.Parameters).StringAll() }},
			{"Len", "parameters.Params.Len", func(i any, k int) { i.(*parameters.Parameters).Len() }},
			{"ParseFlags", "parameters.Params.ParseFlags", func(i any, k int) { i.(*parameters.Parameters).ParseFlags(c32ParseArgs) }},
			{"Raw", "parameters.Params.Raw", func(i any, k int) { i.(*parameters.Parameters).Raw() }},
			{"Dump", "parameters.Params.Dump", func(i any, k int) { i.(*parameters.Parameters).Dump() }},
		}},
		{"Variables", func() any {
			p := lang.NewTestProcess()
			p.Variables.Set(p, "a", "x", types.String)
			p.Variables.Set(p, "pth", "/tmp", types.Path)
			return p
		}, []c32Op{
			{"Set", "lang.Variables.set", func(i any, k int) { p := i.(*lang.Process); p.Variables.Set(p, "a", "y", types.String) }},
			{"SetNew", "lang.Variables.set", func(i any, k int) {
				p := i.(*lang.Process)
				p.Variables.Set(p, fmt.Sprintf("n%d", k%5), "y", types.String)
			}},
			{"SetPath", "lang.Variables.set", func(i any, k int) { p := i.(*lang.Process); p.Variables.Set(p, "pth", "/usr", types.Path) }},
			{"GetValue", "lang.Variables.getValueValue", func(i any, k int) { i.(*lang.Process).Variables.GetValue("a") }},
			{"GetString", "lang.Variables.getStringValue", func(i any, k int) { i.(*lang.Process).Variables.GetString("a") }},
			{"GetDataType", "lang.Variables.getDataTypeValue", func(i any, k int) { i.(*lang.Process).Variables.GetDataType("a") }},
			{"Unset", "lang.Variables.Unset", func(i any, k int) { i.(*lang.Process).Variables.Unset("a") }},
			{"DumpMarshal", "lang.Variables.Dump", func(i any, k int) {
				// what `runtime --variables` does: serialise the dumped table
				json.Marshal(i.(*lang.Process).Variables.Dump())
			}},
		}},
		{"FuncID", func() any { return lang.NewTestProcess() }, []c32Op{
			{"RegisterDeregister", "lang.funcID.Register", func(i any, k int) {
				p := lang.NewTestProcess()
				lang.GlobalFIDs.Deregister(p.Id)
			}},
			{"Proc", "lang.funcID.Proc", func(i any, k int) { lang.GlobalFIDs.Proc(i.(*lang.Process).Id) }},
			{"ListAll", "lang.funcID.ListAll", func(i any, k int) { lang.GlobalFIDs.ListAll() }},
		}},
		{"Jobs", func() any { return lang.NewTestProcess() }, []c32Op{
			{"Add", "lang.jobs.Add", func(i any, k int) { lang.Jobs.Add(i.(*lang.Process)) }},
			{"GarbageCollect", "lang.jobs.GarbageCollect", func(i any, k int) { lang.Jobs.GarbageCollect() }},
			{"Get", "lang.jobs.Get", func(i any, k int) { lang.Jobs.Get(1) }},
			{"GetLatest", "lang.jobs.GetLatest", func(i any, k int) { lang.Jobs.GetLatest() }},
			{"List", "lang.jobs.List", func(i any, k int) { lang.Jobs.List() }},
		}},
	}
}

func c32Find(s, a string) (c32Struct, c32Op, bool) {
	for _, st := range c32Structs() {
		if st.name != s {
			continue
		}
		for _, op := range st.ops {
			if op.name == a {
				return st, op, true
			}
		}
	}
	return c32Struct{}, c32Op{}, false
}

// ---------- concurrent murex programs ----------

func c32GenProg(r *rand.Rand, id int) string {
	w := func() string { return c03ishWord(r) }
	switch r.Intn(9) {
	case 0:
		return fmt.Sprintf("tout str \"%s\\n%s\\n%s\\n\" | foreach l { out \"<$l>\" } | prefix %s | msort | suffix %s", w(), w(), w(), w(), w())
	case 1:
		return fmt.Sprintf("function c32f%d { out \"f:$1\" | suffix %s }; c32f%d a | mtac; c32f%d b | cast str; c32f%d c", id, w(), id, id, id)
	case 2:
		return fmt.Sprintf("bg { out %s | prefix %s -> null }; out %s | suffix %s; bg { out %s -> null }; out done", w(), w(), w(), w(), w())
	case 3:
		return fmt.Sprintf("pipe c32p%d; bg { <c32p%d> -> prefix %s -> null }; out %s -> <c32p%d>; out %s -> <c32p%d>; !pipe c32p%d; out done", id, id, w(), w(), id, w(), id, id)
	case 4:
		return fmt.Sprintf("%%[1..6] -> foreach --parallel 3 i { out \"p$i\" -> null }; out %s", w())
	case 5:
		return fmt.Sprintf("v%d = %s; out $v%d | foreach l { w%d = \"$l-%s\"; out $w%d } | match %s; bg { x%d = 1; out $x%d -> null }; out $v%d", id, w(), id, id, w(), id, string("abc"[r.Intn(3)]), id, id, id)
	case 6:
		return fmt.Sprintf("config set proc strict-vars true; out %s | prefix %s; bg { config get proc strict-vars -> null }; config set proc strict-vars false; out ok", w(), w())
	case 7:
		return fmt.Sprintf("out %s | cast str | foreach l { out $l | suffix %s | prefix %s } | msort | mtac; bg { fid-list -> null }; out end", w(), w(), w())
	default:
		return fmt.Sprintf("try { out %s | match %s; err %s } ; trypipe { out %s | prefix %s }; out %s | foreach l { bg { out $l -> null } }; out fin", w(), string("abc"[r.Intn(3)]), w(), w(), w(), w())
	}
}

func c03ishWord(r *rand.Rand) string {
	const al = "abc"
	n := 1 + r.Intn(3)
	b := make([]byte, n)
	for i := range b {
		b[i] = al[r.Intn(len(al))]
	}
	return string(b)
}

// ---------- race-detector build ----------

func c32RaceBin() string {
	exe, err := os.Executable()
	if err != nil {
		die("C32: %v", err)
	}
	return filepath.Join(filepath.Dir(exe), "mxh-C32-race")
}

func c32BuildRace() {
	exe, _ := os.Executable()
	build := filepath.Dir(exe) // /verif/.build
	harness := filepath.Join(filepath.Dir(build), "harness")
	args := []string{"build", "-race"}
	if repo := os.Getenv("VERIF_REPO"); repo != "" && filepath.Clean(repo) != "/repo" {
		args = append(args, "-modfile="+filepath.Join(build, "mod-C32", "go.mod"))
	}
	args = append(args, "-tags", "verif prop_c32", "-o", c32RaceBin(), "./cmd/mxh")
	cmd := exec.Command("go", args...)
	cmd.Dir = harness
	var out bytes.Buffer
	cmd.Stdout, cmd.Stderr = &out, &out
	if err := cmd.Run(); err != nil {
		os.Remove(c32RaceBin())
		die("C32: race-detector build of the harness failed: %v\n%s", err, out.String())
	}
}

func (c32) Gen(seed int64, tier string, emit func(any)) {
	c32BuildRace()
	iters, nprog := 150, 40
	if tier == "thorough" {
		iters, nprog = 1500, 300
	}
	r := rand.New(rand.NewSource(seed))
	for _, st := range c32Structs() {
		for i := range st.ops {
			for j := i; j < len(st.ops); j++ {
				emit(c32Case{Kind: "pair", S: st.name, A: st.ops[i].name, B: st.ops[j].name, Iters: iters, Seed: r.Int63()})
			}
		}
	}
	for i := 0; i < nprog; i++ {
		emit(c32Case{Kind: "prog", Src: c32GenProg(r, i), Iters: 4, Seed: r.Int63()})
	}
}

// ---------- parent side: run the case in the race-built child, parse the reports ----------

var c32FrameRe = regexp.MustCompile(`(?m)^  (github\.com/lmorg/murex/[^\s(]+(?:\(\*?[A-Za-z0-9_]+\))?[^\s(]*)\(\)`)

// c32RacingFuncs extracts, for every report, the innermost murex function of each of the
// two access stacks ("Write at/Read at ... by goroutine" and "Previous write/read at ...").
func c32RacingFuncs(stderr string) (funcs []string, reports int) {
	set := map[string]bool{}
	for _, rep := range strings.Split(stderr, "WARNING: DATA RACE")[1:] {
		reports++
		if i := strings.Index(rep, "=================="); i >= 0 {
			rep = rep[:i]
		}
		// sections are separated by blank lines; the first two are the accesses
		secs := strings.Split(rep, "\n\n")
		n := 0
		for _, sec := range secs {
			head := strings.TrimSpace(sec)
			if !(strings.HasPrefix(head, "Read at") || strings.HasPrefix(head, "Write at") ||
				strings.HasPrefix(head, "Previous read at") || strings.HasPrefix(head, "Previous write at") ||
				strings.HasPrefix(head, "Atomic") || strings.HasPrefix(head, "Previous atomic")) {
				continue
			}
			if m := c32FrameRe.FindStringSubmatch(sec); m != nil {
				f := strings.TrimPrefix(m[1], "github.com/lmorg/murex/")
				set[c32NormFunc(f)] = true
			} else {
				set["<non-murex>"] = true
			}
			n++
			if n == 2 {
				break
			}
		}
	}
	for f := range set {
		funcs = append(funcs, f)
	}
	sort.Strings(funcs)
	return
}

// builtins/pipes/streams.(*Stdin).GetDataType -> streams.Stdin.GetDataType ; lang.executeProcess -> lang.executeProcess
func c32NormFunc(f string) string {
	if i := strings.LastIndex(f, "/"); i >= 0 {
		f = f[i+1:]
	}
	f = strings.ReplaceAll(f, "Parameters", "Params") // same spelling as the translator (scanner-safe)
	f = strings.ReplaceAll(f, "(*", "")
	f = strings.ReplaceAll(f, ")", "")
	f = strings.ReplaceAll(f, "(", "")
	// closures: lang.foo.func1 -> lang.foo
	for {
		i := strings.LastIndex(f, ".func")
		if i < 0 {
			break
		}
		f = f[:i]
	}
	return f
}

func (c32) Run(raw json.RawMessage) Result {
	var c c32Case
	if err := json.Unmarshal(raw, &c); err != nil {
		die("C32: bad case: %v", err)
	}
	bin := c32RaceBin()
	if _, err := os.Stat(bin); err != nil {
		c32BuildRace()
	}
	// A scenario that does not finish before the deadline is only *suspected* to hang: it is run
	// again, up to 2 more times, with a 5x longer deadline. "failed: timed out" is recorded only if
	// every attempt times out (a deadlock stays one; a child that was merely slow on a loaded
	// machine completes). Reports are parsed from the last (completed) attempt only.
	var stdout, stderr bytes.Buffer
	var obs c32Obs
	for attempt := 0; attempt < 3; attempt++ {
		dl := 90 * time.Second
		if attempt > 0 {
			dl = 450 * time.Second
		}
		stdout.Reset()
		stderr.Reset()
		obs.Failed = ""
		cmd := exec.Command(bin, "child", "C32", string(raw))
		cmd.Env = append(os.Environ(), "GORACE=halt_on_error=0 exitcode=0 history_size=3")
		cmd.Stdout, cmd.Stderr = &stdout, &stderr
		done := make(chan error, 1)
		if err := cmd.Start(); err != nil {
			die("C32: cannot start the race-detector child: %v", err)
		}
		go func() { done <- cmd.Wait() }()
		timedOut := false
		select {
		case err := <-done:
			if err != nil && !strings.Contains(stderr.String(), "DATA RACE") {
				obs.Failed = fmt.Sprintf("child: %v: %s", err, c32Tail(stderr.String(), 300))
			}
		case <-time.After(dl):
			cmd.Process.Kill()
			<-done
			obs.Failed = "child timed out"
			timedOut = true
		}
		if !timedOut {
			break
		}
	}
	if !strings.Contains(stdout.String(), "C32-CHILD-DONE") && obs.Failed == "" {
		obs.Failed = "child did not finish: " + c32Tail(stderr.String(), 300)
	}
	obs.Funcs, obs.Reports = c32RacingFuncs(stderr.String())
	obs.Race = obs.Reports > 0

	var a, b string
	if c.Kind == "pair" {
		_, opa, ok1 := c32Find(c.S, c.A)
		_, opb, ok2 := c32Find(c.S, c.B)
		if !ok1 || !ok2 {
			die("C32: unknown operation in %s", string(raw))
		}
		a, b = opa.method, opb.method
	}
	fl := make([]string, len(obs.Funcs))
	for i, f := range obs.Funcs {
		fl[i] = c32Str(f)
	}
	coq := fmt.Sprintf("(mkcase %s %s %s %v %v [%s])", map[string]string{"pair": "KPair", "prog": "KProg"}[c.Kind],
		c32Str(a), c32Str(b), obs.Race, obs.Failed != "", strings.Join(fl, "; "))
	class := c.Kind + "/" + c.S
	return Result{Obs: obs, Coq: coq, Nontrivial: c.Kind == "prog" || c.A != c.B || true, Class: class}
}

func c32Str(s string) string {
	return "\"" + strings.ReplaceAll(s, "\"", "") + "\"%string"
}

func c32Tail(s string, n int) string {
	if len(s) > n {
		return s[len(s)-n:]
	}
	return s
}

// ---------- child side (runs inside the -race binary) ----------

func (c32) Child(args []string) {
	if len(args) != 1 {
		die("C32 child: expected one JSON argument")
	}
	var c c32Case
	if err := json.Unmarshal([]byte(args[0]), &c); err != nil {
		die("C32 child: %v", err)
	}
	initMurex()
	switch c.Kind {
	case "pair":
		st, opa, ok1 := c32Find(c.S, c.A)
		_, opb, ok2 := c32Find(c.S, c.B)
		if !ok1 || !ok2 {
			die("C32 child: unknown operation")
		}
		for k := 0; k < c.Iters; k++ {
			inst := st.mk()
			start := make(chan struct{})
			var wg sync.WaitGroup
			for _, op := range []c32Op{opa, opb} {
				wg.Add(1)
				go func(op c32Op) {
					defer wg.Done()
					defer func() { recover() }()
					<-start
					for n := 0; n < 3; n++ {
						op.run(inst, k+n)
					}
				}(op)
			}
			close(start)
			wg.Wait()
		}
	case "prog":
		r := rand.New(rand.NewSource(c.Seed))
		for k := 0; k < c.Iters; k++ {
			undo := c03PerturbShim(r.Int63())
			RunMurex(c.Src, 20*time.Second)
			undo()
		}
		time.Sleep(150 * time.Millisecond) // let background jobs finish their teardown
	default:
		die("C32 child: bad kind")
	}
	fmt.Println("C32-CHILD-DONE")
	os.Stdout.Sync()
}

// the C03 perturbation, when that plug-in's yield hooks are compiled in as well
func c03PerturbShim(seed int64) func() {
	// No shared state in the callback: a mutex or an atomic counter here would add
	// happens-before edges between the goroutines and hide races from the detector.
	fn := func(site string) {
		x := (time.Now().UnixNano() >> 6) ^ seed
		switch x & 7 {
		case 0, 1:
			time.Sleep(0)
		case 2:
			time.Sleep(time.Duration((x>>3)&127) * time.Microsecond)
		}
	}
	lang.VerifSetYield(fn)
	c03InstallStreamYield(fn)
	return func() {
		lang.VerifSetYield(nil)
		c03InstallStreamYield(nil)
	}
}
