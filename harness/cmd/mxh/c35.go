//go:build prop_c35 || prop_all

package main

// C35 — escape, eschtml and escurl are undone by their `!` forms.
//
// Every case feeds a byte string to the real builtin (looked up in
// lang.GoFunctions, called as a method with the bytes on its stdin) and to a
// real murex pipeline `<stdin> -> k -> !k` whose stdin holds the bytes.

import (
	"encoding/hex"
	"encoding/json"
	"math/rand"
	"strconv"
	"strings"
	"time"

	"github.com/lmorg/murex/builtins/pipes/streams"
	"github.com/lmorg/murex/lang"
	"github.com/lmorg/murex/lang/ref"

	"verifharness/coqlit"
)

type c35Case struct {
	Kind string `json:"kind"` // escape|html|url
	Mode string `json:"mode"` // round|dec
	In   string `json:"in"`   // hex of the input bytes
}

type c35Out struct {
	Ok  bool   `json:"ok"`
	Hex string `json:"hex"`
}

type c35Obs struct {
	Enc  c35Out `json:"enc"`
	Dec  c35Out `json:"dec"`
	Pipe c35Out `json:"pipe"`
}

type c35 struct{}

func init() { register("C35", c35{}) }

var c35Names = map[string]string{"escape": "escape", "html": "eschtml", "url": "escurl"}
var c35Kinds = []string{"escape", "html", "url"}

// ---- running the implementation ----

// c35Builtin calls the registered builtin as a method on stdin.
func c35Builtin(name string, not bool, stdin []byte) c35Out {
	initMurex()
	fn := lang.GoFunctions[name]
	if fn == nil {
		die("C35: builtin %q is not registered", name)
	}
	p := lang.NewTestProcess()
	in := streams.NewStdin()
	if _, err := in.Write(stdin); err != nil {
		die("C35: cannot fill stdin: %v", err)
	}
	in.Close()
	out := streams.NewStdin()
	p.Stdin = in
	p.Stdout = out
	p.IsMethod = true
	p.IsNot = not
	if not {
		p.Name.Set("!" + name)
	} else {
		p.Name.Set(name)
	}
	err := fn(p)
	p.Done()
	lang.GlobalFIDs.Deregister(p.Id)
	out.Close()
	b, rerr := out.ReadAll()
	if err != nil || rerr != nil {
		return c35Out{Ok: false, Hex: hex.EncodeToString(b)}
	}
	return c35Out{Ok: true, Hex: hex.EncodeToString(b)}
}

var c35Counter int

// c35Pipeline runs `block` in a function fork whose stdin holds the bytes.
func c35Pipeline(block string, stdin []byte) c35Out {
	initMurex()
	c35Counter++
	fork := lang.ShellProcess.Fork(lang.F_FUNCTION | lang.F_NEW_MODULE | lang.F_CREATE_STDIN | lang.F_CREATE_STDOUT | lang.F_CREATE_STDERR)
	fork.Name.Set("verif")
	fork.FileRef = &ref.File{Source: &ref.Source{Module: "murex/verif-c35-" + strconv.Itoa(c35Counter)}}
	if _, err := fork.Stdin.Write(stdin); err != nil {
		die("C35: cannot fill stdin: %v", err)
	}
	fork.Stdin.Close()
	type ret struct {
		n   int
		err error
	}
	done := make(chan ret, 1)
	go func() {
		n, err := fork.Execute([]rune(block))
		done <- ret{n, err}
	}()
	select {
	case x := <-done:
		b, _ := fork.Stdout.ReadAll()
		return c35Out{Ok: x.err == nil && x.n == 0, Hex: hex.EncodeToString(b)}
	case <-time.After(20 * time.Second):
		fork.Process.Done()
		return c35Out{Ok: false, Hex: "timeout"}
	}
}

func (c35) Run(raw json.RawMessage) Result {
	var c c35Case
	if err := json.Unmarshal(raw, &c); err != nil {
		die("C35: bad case: %v", err)
	}
	in, err := hex.DecodeString(c.In)
	if err != nil {
		die("C35: bad hex: %v", err)
	}
	name := c35Names[c.Kind]
	if name == "" {
		die("C35: bad kind %q", c.Kind)
	}
	var o c35Obs
	var libq string
	var libuqOk bool
	var libuq string
	switch c.Mode {
	case "round":
		o.Enc = c35Builtin(name, false, in)
		encBytes, _ := hex.DecodeString(o.Enc.Hex)
		o.Dec = c35Builtin(name, true, encBytes)
		o.Pipe = c35Pipeline("<stdin> -> "+name+" -> !"+name, in)
		libq = strconv.Quote(string(in))
		u, uerr := strconv.Unquote(string(encBytes))
		libuqOk, libuq = uerr == nil, u
	case "dec":
		o.Enc = c35Out{Ok: true}
		o.Dec = c35Builtin(name, true, in)
		o.Pipe = c35Pipeline("<stdin> -> !"+name, in)
		u, uerr := strconv.Unquote(string(in))
		libuqOk, libuq = uerr == nil, u
	default:
		die("C35: bad mode %q", c.Mode)
	}
	if c.Kind != "escape" {
		libq, libuqOk, libuq = "", false, ""
	}
	kind := map[string]string{"escape": "KEscape", "html": "KHtml", "url": "KUrl"}[c.Kind]
	mode := map[string]string{"round": "Round", "dec": "DecOnly"}[c.Mode]
	coq := coqlit.Record(
		"c_kind", kind, "c_mode", mode, "c_in", coqlit.Bytes(string(in)),
		"c_enc", c35Outcome(o.Enc), "c_dec", c35Outcome(o.Dec), "c_pipe", c35Outcome(o.Pipe),
		"c_libq", coqlit.Bytes(libq), "c_libuq", coqlit.Option(libuqOk, coqlit.Bytes(libuq)))
	// non-trivial: a round trip in which the encoder changed at least one byte
	nt := c.Mode == "round" && o.Enc.Hex != c.In
	class := c.Kind + "/" + c.Mode
	if c.Mode == "round" {
		if nt {
			class += "/changed"
		} else {
			class += "/identity"
		}
	}
	return Result{Obs: o, Coq: coq, Nontrivial: nt, Class: class}
}

func c35Outcome(o c35Out) string {
	if !o.Ok {
		return "(Err 1)"
	}
	b, err := hex.DecodeString(o.Hex)
	if err != nil {
		return "(Err 1)"
	}
	return "(Ok " + coqlit.Bytes(string(b)) + ")"
}

// ---- generation ----

var c35Corpus = []string{
	"", "hello world", "foo & bar", `"foo & bar"`, "&amp;lt;", "&amp;amp;", "&#39;", "'5", "'x", "&#x27;", "%zz", "%", "%4", "%41",
	"+", "a+b c", "100% sure", "/a/b;c,d?e", "$&+=:@", "-_.~", "\x00", "\xff", "\xc3", "\xc3\xa9", "\xe2\x82\xac", "\xf0\x9f\x98\x80",
	"\xed\xa0\x80", "\xef\xbf\xbd", "a\nb", "a\r\nb\t", `\`, `\\`, `\"`, `"`, `""`, "`", "'", "a\\x41", `é`, "\x7f", " ",
	"<script>alert('x')</script>", "&&&&", ";;;;", "&;", "&#;", "&lt", "&ltcc;", "&notit;", "%25", "%2541", "%%", " ", "  leading and trailing  ",
	"\n", "trailing newline\n", "\n\n", "\xfe\xff", "\x80\x80\x80", strings.Repeat("&", 70), strings.Repeat("%", 70), strings.Repeat("\"\\", 40),
}

// bytes that matter to at least one of the three encoders/decoders
var c35Special = []byte{'&', ';', '#', '%', '+', ' ', '"', '\'', '\\', '<', '>', 'x', '3', '9', '4', 'a', 'A', 'l', 't', 'n', '/', '?', ',',
	0, '\n', 0x7f, 0x80, 0xc3, 0xa9, 0xff, 'u', '`'}

var c35Frags = []string{
	"&amp;", "&lt;", "&gt;", "&#39;", "&#34;", "&quot;", "&apos;", "&amp", "&#", "&#x", "&", ";", "amp;", "#39;", "lt;", "gt;",
	"%", "%2", "%25", "%41", "%zz", "%C3%A9", "%c3", "+", " ", "/", "?", ";", ",", ":", "@", "=", "$", "~", ".", "-", "_",
	`"`, `\`, `\"`, `\\`, `\n`, `\x`, `\xff`, `\u`, `é`, `\U0001F600`, `\0`, `\101`, "'", "`", "\n", "\r", "\t", "\x00", "\x07", "\x1b", "\x7f",
	"\xc3\xa9", "\xe2\x82\xac", "\xf0\x9f\x98\x80", "\xc3", "\xa9", "\x80", "\xff", "\xfe", "\xed\xa0\x80", "\xef\xbf\xbd", "\xc0\xaf", "\xf4\x90\x80\x80",
	"a", "b", "Z", "0", "9", "x", "hello", "world", "<", ">", "<b>", "</b>",
}

func c35RandBytes(r *rand.Rand) []byte {
	var b []byte
	switch r.Intn(4) {
	case 0: // raw random bytes
		n := r.Intn(24)
		for i := 0; i < n; i++ {
			b = append(b, byte(r.Intn(256)))
		}
	case 1: // special bytes only
		n := r.Intn(16)
		for i := 0; i < n; i++ {
			b = append(b, c35Special[r.Intn(len(c35Special))])
		}
	default: // fragments
		n := r.Intn(10)
		for i := 0; i < n; i++ {
			b = append(b, c35Frags[r.Intn(len(c35Frags))]...)
		}
	}
	return b
}

// entity-like pieces (named and numeric references, well formed and broken)
var c35HtmlPieces = []string{
	"&amp;", "&amp", "&AMP;", "&AMP", "&lt;", "&lt", "&LT;", "&gt;", "&gt", "&GT", "&quot;", "&quot", "&QUOT;", "&apos;", "&apos",
	"&nbsp;", "&nbsp", "&copy;", "&copy", "&ampx", "&ampx;", "&ltx;", "&gtzq", "&quotzq;", "&amp;lt;", "&amp;amp;", "&amp;#39;",
	"&#39;", "&#34;", "&#x27;", "&#X27", "&#x27", "&#0;", "&#128;", "&#x80;", "&#x9f;", "&#159", "&#55296;", "&#xdfff;", "&#1114111;", "&#1114112;",
	"&#99999999999;", "&#4294967335;", "&#2147483648;", "&#xffffffff;", "&#x100000027;", "&#;", "&#x;", "&#X;", "&#5x", "&#5", "&#55x", "&#x5", "&#xg", "&#", "&#x", "&#a;",
	"&", "&&", "&;", "&zq;", "&zqzq", "&zq", "&1;", "&12zq;", "&#233;", "&#xe9;", "&#8364;", "&#x20ac;", "&#128512;", "&#x1F600;", "&#65533;",
	"plain", "text", "a", "1", "#39;", "amp;", "x27;",
	// numeric references: the five escaped bytes, overlong, out of range, surrogates
	"&#38;", "&#x26;", "&#X26;", "&#0000038;", "&#x0000000000026;", "&#60;", "&#x3c;", "&#x3C;", "&#62;", "&#x3e", "&#34;", "&#x22;", "&#039;", "&#00039",
	"&#x110000;", "&#x10FFFF;", "&#xD800;", "&#xd7ff;", "&#xE000;", "&#57343;", "&#xFFFFFFFFF;", "&#18446744073709551654;", "&#x7fffffff;", "&#x80000000;", "&#2147483647;",
	"&#129;", "&#x81;", "&#150;", "&#x9F;", "&#160;", "&#xa0;", "&#127;", "&#x7f;", "&#9;", "&#10;", "&#1;", "&#x0;", "&#00;", "&#38", "&#38x", "&#3;8;", "&#x2;6",
	// the whole entity table of html/entity.go is in the model now
	"&eacute;", "&eacute", "&Eacute;", "&notit;", "&not", "&notin;", "&ltcc;", "&gtcc;", "&ampere;", "&NotEqualTilde;", "&bne;", "&acE;", "&fjlig;", "&nvlt;",
	"&CounterClockwiseContourIntegral;", "&CounterClockwiseContourIntegralx;", "&para", "&parax", "&paragraph", "&sect2", "&uml;", "&yen5", "&THORN", "&thorn;", "&ETH", "&eth",
	"&reg", "&REG;", "&COPY", "&copy;", "&deg", "&micro", "&middot", "&frac12", "&frac34x", "&sup1", "&sup2;", "&times", "&divide", "&szlig", "&zwj;", "&zwnj;", "&lrm;",
	"&Aacute", "&aacut", "&aacutee;", "&ac", "&ac;", "&ap;", "&mu;", "&mu", "&pi;", "&Pi;", "&xi;", "&gg;", "&Gg;", "&ll;", "&Lt;", "&lT;", "&GT;", "&Gt;", "&gT;",
}
var c35HtmlSeps = []string{" ", "=", "\xff", "\n", "<", ">", "\"", "'", "-", ".", "\xc3\xa9", "/", " & ", "&="}

func c35HtmlDec(r *rand.Rand) []byte {
	var b []byte
	n := 1 + r.Intn(6)
	for i := 0; i < n; i++ {
		if i > 0 && r.Intn(3) != 0 { // pieces may also touch: the model knows the whole entity table
			b = append(b, c35HtmlSeps[r.Intn(len(c35HtmlSeps))]...)
		}
		switch r.Intn(6) {
		case 0: // random name
			b = append(b, '&')
			for k := r.Intn(8); k >= 0; k-- {
				b = append(b, "abcdefghijklmnopqrstuvwxyzABCDEGLNOT0123456789"[r.Intn(46)])
			}
			if r.Intn(2) == 0 {
				b = append(b, ';')
			}
		case 1: // random numeric reference
			b = append(b, "&#"...)
			if r.Intn(2) == 0 {
				b = append(b, "xX"[r.Intn(2)])
				b = append(b, strconv.FormatUint(r.Uint64()>>uint(r.Intn(64)), 16)...)
			} else {
				b = append(b, strconv.FormatUint(r.Uint64()>>uint(r.Intn(64)), 10)...)
			}
			if r.Intn(3) != 0 {
				b = append(b, ';')
			}
		default:
			b = append(b, c35HtmlPieces[r.Intn(len(c35HtmlPieces))]...)
		}
	}
	return b
}

var c35UrlPieces = []string{"%", "%4", "%41", "%zz", "%4g", "%g4", "%C3%A9", "%c3%a9", "%00", "%ff", "%FF", "%25", "%2541", "%%", "%%41", "+", " ", "a", "/", "?", "\xff", "abc", "%4", "%"}

func c35UrlDec(r *rand.Rand) []byte {
	var b []byte
	n := 1 + r.Intn(6)
	for i := 0; i < n; i++ {
		b = append(b, c35UrlPieces[r.Intn(len(c35UrlPieces))]...)
	}
	return b
}

// `!escape` inputs: quoted literals (valid and broken); when Unquote fails the
// builtin falls back to html.UnescapeString, so the rest stays within c35HtmlDec's domain.
var c35EscDec = []string{
	`"hello world"`, `"a\nb"`, `"a\"b"`, `"\xff\xc3"`, `"é"`, `"\U0001F600"`, `"\101"`, `"tab\there"`, `"unterminated`, `unstarted"`,
	`'a'`, `'ab'`, `'\''`, "`raw`", "`ra\\w`", `""`, `"`, `"\q"`, `"\x4"`, `"a"b"`, "\"a\nb\"", `"&amp;"`, "\"\xff\"", "\"\xc3\xa9\"", `"\ud800"`,
	"hello world", "foo &amp; bar", "foo &amp bar", `\"hello world\"`, "&lt;b&gt;", "&#39;", "", " \"x\"", "\"x\" ",
}

func (c35) Gen(seed int64, tier string, emit func(any)) {
	e := func(kind, mode string, b []byte) { emit(c35Case{kind, mode, hex.EncodeToString(b)}) }
	// corpus
	for _, s := range c35Corpus {
		for _, k := range c35Kinds {
			e(k, "round", []byte(s))
		}
	}
	for _, s := range c35EscDec {
		e("escape", "dec", []byte(s))
	}
	for _, s := range c35HtmlPieces {
		e("html", "dec", []byte(s))
		e("html", "dec", []byte(s+" tail"))
		e("escape", "dec", []byte(s))
	}
	for _, s := range c35UrlPieces {
		e("url", "dec", []byte(s))
	}
	// exhaustive: every single byte, every pair of special bytes
	for _, k := range c35Kinds {
		for i := 0; i < 256; i++ {
			e(k, "round", []byte{byte(i)})
		}
	}
	pairs := c35Special
	if tier != "thorough" {
		pairs = c35Special[:14]
	}
	for _, k := range c35Kinds {
		for _, a := range pairs {
			for _, b := range pairs {
				e(k, "round", []byte{a, b})
			}
		}
	}
	// random
	r := rand.New(rand.NewSource(seed))
	n := 400
	if tier == "thorough" {
		n = 3000
	}
	for i := 0; i < n; i++ {
		b := c35RandBytes(r)
		for _, k := range c35Kinds {
			e(k, "round", b)
		}
		if i%4 == 0 {
			e("html", "dec", c35HtmlDec(r))
			e("html", "dec", c35RandBytes(r))
			e("url", "dec", c35UrlDec(r))
			e("escape", "dec", c35HtmlDec(r))
			q := strconv.Quote(string(c35RandBytes(r)))
			e("escape", "dec", []byte(q))
			if len(q) > 2 { // damage the literal
				qb := []byte(q)
				qb[r.Intn(len(qb))] = c35Special[r.Intn(len(c35Special))]
				e("escape", "dec", qb) // when Unquote fails the text goes through html.UnescapeString
			}
		}
	}
	if tier == "thorough" { // long inputs
		for i := 0; i < 8; i++ {
			var b []byte
			for len(b) < 1500+r.Intn(1500) {
				b = append(b, c35RandBytes(r)...)
			}
			for _, k := range c35Kinds {
				e(k, "round", b)
			}
		}
	}
}

// Shrink: drop one byte / keep one half.
func (c35) Shrink(raw json.RawMessage) []any {
	var c c35Case
	if json.Unmarshal(raw, &c) != nil {
		return nil
	}
	b, err := hex.DecodeString(c.In)
	if err != nil || len(b) <= 1 {
		return nil
	}
	var out []any
	add := func(x []byte) { out = append(out, c35Case{c.Kind, c.Mode, hex.EncodeToString(x)}) }
	add(b[:len(b)/2])
	add(b[len(b)/2:])
	for i := range b {
		if len(out) > 150 {
			break
		}
		x := append(append([]byte{}, b[:i]...), b[i+1:]...)
		add(x)
	}
	return out
}
