//go:build prop_c34 || prop_all

package main

// C34 — lines of the command-line grammar of coq/theories/Model/CmdLine.v: the
// generator builds the syntax tree, renders it here (Coq renders it again and the
// two must agree) and the observation carries the command names of the real
// ParseBlock tree of the whole line, which Check.C34.agree compares with
// CmdLine.commands — so the `commands` of the soundness theorem is itself checked
// against the code.

import (
	"math/rand"
	"strings"

	"github.com/lmorg/murex/utils/parser"

	"verifharness/coqlit"
)

type gArg struct {
	Q int    `json:"q"` // 0 none, 1 single, 2 double
	T string `json:"t"`
}
type gSep struct {
	K int  `json:"k"` // 0 ; 1 | 2 -> 3 && 4 ||
	B bool `json:"b"`
	A bool `json:"a"`
}
type gSStmt struct {
	N string `json:"n"`
	A []gArg `json:"a"`
}
type gSTail struct {
	S gSep   `json:"s"`
	X gSStmt `json:"x"`
}
type gSLine struct {
	H gSStmt   `json:"h"`
	T []gSTail `json:"t"`
}
type gItem struct {
	Arg  *gArg   `json:"arg,omitempty"`
	Pad  bool    `json:"pad,omitempty"`
	Body *gSLine `json:"body,omitempty"`
}
type gStmt struct {
	N string  `json:"n"`
	I []gItem `json:"i"`
}
type gTail struct {
	S gSep  `json:"s"`
	X gStmt `json:"x"`
}
type gLine struct {
	H gStmt   `json:"h"`
	T []gTail `json:"t"`
}

var gSepTok = []string{";", "|", "->", "&&", "||"}

func gSp(b bool) string {
	if b {
		return " "
	}
	return ""
}
func (a gArg) render() string {
	switch a.Q {
	case 1:
		return "'" + a.T + "'"
	case 2:
		return "\"" + a.T + "\""
	}
	return a.T
}
func (s gSep) render() string { return gSp(s.B) + gSepTok[s.K] + gSp(s.A) }
func (s gSStmt) render() string {
	var b strings.Builder
	b.WriteString(s.N)
	for _, a := range s.A {
		b.WriteString(" " + a.render())
	}
	return b.String()
}
func (l gSLine) render() string {
	var b strings.Builder
	b.WriteString(l.H.render())
	for _, t := range l.T {
		b.WriteString(t.S.render() + t.X.render())
	}
	return b.String()
}
func (it gItem) render() string {
	if it.Arg != nil {
		return it.Arg.render()
	}
	return "{" + gSp(it.Pad) + it.Body.render() + gSp(it.Pad) + "}"
}
func (s gStmt) render() string {
	var b strings.Builder
	b.WriteString(s.N)
	for _, it := range s.I {
		b.WriteString(" " + it.render())
	}
	return b.String()
}
func (l gLine) render() string {
	var b strings.Builder
	b.WriteString(l.H.render())
	for _, t := range l.T {
		b.WriteString(t.S.render() + t.X.render())
	}
	return b.String()
}

// ---- Coq terms ----
func (a gArg) coq() string {
	q := []string{"QNone", "QSingle", "QDouble"}[a.Q]
	return coqlit.Record("a_quote", q, "a_text", tokRunes([]rune(a.T)))
}
func (s gSep) coq() string {
	k := []string{"SSemi", "SPipe", "SArrow", "SAnd", "SOr"}[s.K]
	return coqlit.Record("s_k", k, "s_before", coqlit.Bool(s.B), "s_after", coqlit.Bool(s.A))
}
func (s gSStmt) coq() string {
	as := make([]string, len(s.A))
	for i, a := range s.A {
		as[i] = a.coq()
	}
	return coqlit.Record("ss_name", tokRunes([]rune(s.N)), "ss_args", coqlit.List(as))
}
func (l gSLine) coq() string {
	ts := make([]string, len(l.T))
	for i, t := range l.T {
		ts[i] = "(" + t.S.coq() + ", " + t.X.coq() + ")"
	}
	return "(" + l.H.coq() + ", " + coqlit.List(ts) + ")"
}
func (it gItem) coq() string {
	if it.Arg != nil {
		return coqlit.App("IArg", it.Arg.coq())
	}
	return coqlit.App("IBlock", coqlit.Bool(it.Pad), it.Body.coq())
}
func (s gStmt) coq() string {
	is := make([]string, len(s.I))
	for i, it := range s.I {
		is[i] = it.coq()
	}
	return coqlit.Record("st_name", tokRunes([]rune(s.N)), "st_items", coqlit.List(is))
}
func (l gLine) coq() string {
	ts := make([]string, len(l.T))
	for i, t := range l.T {
		ts[i] = "(" + t.S.coq() + ", " + t.X.coq() + ")"
	}
	return "(" + l.H.coq() + ", " + coqlit.List(ts) + ")"
}

// ---- generation ----
func gAlpha(s string) bool {
	if s == "" || s == "true" || s == "false" || s == "null" {
		return false
	}
	for _, c := range s {
		if c < 'a' || c > 'z' {
			return false
		}
	}
	return true
}

func gNames() (safe []string, unsafe []string) {
	for _, s := range parser.GetSafeCmds() {
		if gAlpha(s) {
			safe = append(safe, s)
		}
	}
	unsafe = []string{"rm", "sh", "exec", "cat", "tee", "kill", "et", "s", "x", "mm", "bg", "source", "cd"}
	return
}

type gGen struct {
	rng          *rand.Rand
	safe, unsafe []string
}

func (g *gGen) name() string {
	if g.rng.Intn(5) == 0 {
		return g.unsafe[g.rng.Intn(len(g.unsafe))]
	}
	return g.safe[g.rng.Intn(len(g.safe))]
}
func (g *gGen) arg() gArg {
	words := []string{"a", "x", "foo", "rm", "out", "z"}
	q := []string{"a b", "", "x;y", "rm x | sh", " ", "out", "a|b ;c"}
	switch g.rng.Intn(4) {
	case 0:
		return gArg{1, q[g.rng.Intn(len(q))]}
	case 1:
		return gArg{2, q[g.rng.Intn(len(q))]}
	}
	return gArg{0, words[g.rng.Intn(len(words))]}
}
func (g *gGen) sep() gSep { return gSep{g.rng.Intn(5), g.rng.Intn(2) == 0, g.rng.Intn(2) == 0} }
func (g *gGen) sstmt() gSStmt {
	s := gSStmt{N: g.name(), A: []gArg{}}
	for n := g.rng.Intn(3); n > 0; n-- {
		s.A = append(s.A, g.arg())
	}
	return s
}
func (g *gGen) sline() *gSLine {
	l := &gSLine{H: g.sstmt(), T: []gSTail{}}
	for n := g.rng.Intn(3); n > 0; n-- {
		l.T = append(l.T, gSTail{g.sep(), g.sstmt()})
	}
	return l
}
func (g *gGen) stmt(blocks bool) gStmt {
	s := gStmt{N: g.name(), I: []gItem{}}
	for n := g.rng.Intn(4); n > 0; n-- {
		if blocks && g.rng.Intn(3) == 0 {
			s.I = append(s.I, gItem{Pad: g.rng.Intn(2) == 0, Body: g.sline()})
		} else {
			a := g.arg()
			s.I = append(s.I, gItem{Arg: &a})
		}
	}
	return s
}
func (g *gGen) line() gLine {
	n := g.rng.Intn(4)
	l := gLine{H: g.stmt(true), T: []gTail{}}
	for i := 0; i < n; i++ {
		// the statement being typed (the last one) has no block: its inner flow tokens
		// would be the last flow token
		l.T = append(l.T, gTail{g.sep(), g.stmt(i < n-1)})
	}
	if n == 0 && g.rng.Intn(2) == 0 {
		l.H = g.stmt(false)
	}
	return l
}

type c34GCase struct {
	tokCase
	G *gLine `json:"g,omitempty"`
}

func c34GenGrammar(seed int64, tier string, emit func(any)) {
	safe, unsafe := gNames()
	mk := func(l gLine) {
		s := l.render()
		emit(c34GCase{tokMk([]rune(s), 0), &l})
	}
	// two statements: every separator with and without spaces, names that matter
	for _, a := range []string{"out", "rm", "g"} {
		for _, b := range []string{"out", "rm", "et"} {
			for k := 0; k < 5; k++ {
				for sp := 0; sp < 4; sp++ {
					mk(gLine{H: gStmt{N: a, I: []gItem{}}, T: []gTail{{gSep{k, sp&1 != 0, sp&2 != 0}, gStmt{N: b, I: []gItem{}}}}})
					x := gArg{0, "x"}
					mk(gLine{H: gStmt{N: a, I: []gItem{{Arg: &x}}}, T: []gTail{{gSep{k, sp&1 != 0, sp&2 != 0}, gStmt{N: b, I: []gItem{}}}}})
				}
			}
		}
	}
	// blocks: name directly before `}` and before the next separator
	for _, in := range []string{"rm", "out"} {
		for _, pad := range []bool{false, true} {
			for k := 0; k < 5; k++ {
				body := &gSLine{H: gSStmt{N: in, A: []gArg{}}, T: []gSTail{}}
				mk(gLine{H: gStmt{N: "if", I: []gItem{{Pad: pad, Body: body}}}, T: []gTail{{gSep{k, false, true}, gStmt{N: "out", I: []gItem{}}}}})
				body2 := &gSLine{H: gSStmt{N: "out", A: []gArg{{0, "a"}}}, T: []gSTail{{gSep{k, false, false}, gSStmt{N: in, A: []gArg{}}}}}
				mk(gLine{H: gStmt{N: "try", I: []gItem{{Pad: pad, Body: body2}, {Arg: &gArg{0, "z"}}}}, T: []gTail{{gSep{1, true, true}, gStmt{N: "out", I: []gItem{}}}}})
			}
		}
	}
	g := &gGen{rand.New(rand.NewSource(seed ^ 0x34c0de)), safe, unsafe}
	n := 700
	if tier == "thorough" {
		n = 6000
	}
	for i := 0; i < n; i++ {
		mk(g.line())
	}
}
