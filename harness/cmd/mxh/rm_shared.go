//go:build prop_c04 || prop_c05 || prop_c28 || prop_all

package main

// Shared by C04, C05 and C28: chains of commands with chosen exit numbers and
// output, joined by `;`, newline, `&&`, `||`, `|` / `->`; rendering to murex
// source, execution through Fork.Execute under a run mode, and rendering of the
// case as a Gallina term (Model/RunMode.v: program, cmd, joiner, obs).

import (
	"fmt"
	"math/rand"
	"strings"
	"sync"
	"time"

	"github.com/lmorg/murex/lang"

	"verifharness/coqlit"
)

// rmStage is one command. K is its kind:
//
//	true  false        boolean expressions (exit 0 / 1; print true / false unless the next process is joined by && or ||)
//	out   err          `out oN` (exit 0, prints oN\n)   `err eN` (exit 1, prints nothing on stdout)
//	f0 f1 f7           murex functions `fK tN`: print tN\n, return K
//	g0 g1 g7           murex functions `gK tN`: copy stdin to stdout, print tN\n, return K   (method stages only)
//	s0                 murex function: writes tN\n to STDERR only, returns 0
//	b0                 murex function: writes tN\n to stdout and to stderr, returns 0
//	gs0                murex function: copies stdin to stdout, writes tN\n to stderr, returns 0 (method stages only)
type rmStage struct {
	K string `json:"k"`
	N int    `json:"n"`
	A bool   `json:"a,omitempty"` // joined to the stage before it by `->` instead of `|`
}

type rmPipe struct {
	J  string    `json:"j"`            // ";" "&&" "||" (ignored for the first pipeline)
	NL bool      `json:"nl,omitempty"` // ";" written as a newline
	S  []rmStage `json:"s"`
}

type rmCase struct {
	Mode string   `json:"mode"` // normal try trypipe fntry fntrypipe
	P    []rmPipe `json:"p"`
}

type rmObs struct {
	Out     string `json:"out"`
	Exit    int    `json:"exit"`
	Flags   string `json:"flags"` // per process: m/- a/- o/-
	Timeout bool   `json:"timeout,omitempty"`
	Src     string `json:"src"`
}

const rmDefs = `
function f0 { out $1; return 0 }
function f1 { out $1; return 1 }
function f7 { out $1; return 7 }
function g0 { <stdin>; out $1; return 0 }
function g1 { <stdin>; out $1; return 1 }
function g7 { <stdin>; out $1; return 7 }
function s0 { err $1; return 0 }
function b0 { out $1; err $1; return 0 }
function gs0 { <stdin>; err $1; return 0 }
`

var rmOnce sync.Once

func rmInit() {
	rmOnce.Do(func() {
		r := RunMurex(rmDefs, 60*time.Second)
		if r.Timeout || r.Err || r.ExitNum != 0 {
			die("rm: cannot define helper functions: %+v", r)
		}
	})
}

func rmExit(k string) int {
	switch k {
	case "true", "out", "f0", "g0", "s0", "b0", "gs0":
		return 0
	case "false", "err", "f1", "g1":
		return 1
	case "f7", "g7":
		return 7
	}
	die("rm: unknown command kind %q", k)
	return 0
}

func rmFwd(k string) bool { return k[0] == 'g' }

func rmStageSrc(s rmStage) string {
	switch s.K {
	case "true", "false":
		return s.K
	case "out":
		return fmt.Sprintf("out o%d", s.N)
	case "err":
		return fmt.Sprintf("err e%d", s.N)
	}
	return fmt.Sprintf("%s t%d", s.K, s.N)
}

// rmBody renders the chain itself.
func rmBody(c rmCase) string {
	var b strings.Builder
	for i, p := range c.P {
		if i > 0 {
			switch {
			case p.J == "&&":
				b.WriteString(" && ")
			case p.J == "||":
				b.WriteString(" || ")
			case p.NL:
				b.WriteString("\n")
			default:
				b.WriteString("; ")
			}
		}
		for k, s := range p.S {
			if k > 0 {
				if s.A {
					b.WriteString(" -> ")
				} else {
					b.WriteString(" | ")
				}
			}
			b.WriteString(rmStageSrc(s))
		}
	}
	return b.String()
}

// rmSource renders the block that is executed for the case's mode.
func rmSource(c rmCase) string {
	body := rmBody(c)
	switch c.Mode {
	case "normal":
		return body
	case "try":
		return "try { " + body + " }"
	case "trypipe":
		return "trypipe { " + body + " }"
	case "tryerr":
		return "tryerr { " + body + " }"
	case "trypipeerr":
		return "trypipeerr { " + body + " }"
	case "fntryerr":
		return "function rmw {\nrunmode tryerr function\n" + body + "\n}\nrmw"
	case "fntrypipeerr":
		return "function rmw {\nrunmode trypipeerr function\n" + body + "\n}\nrmw"
	case "fntry":
		return "function rmw {\nrunmode try function\n" + body + "\n}\nrmw"
	case "fntrypipe":
		return "function rmw {\nrunmode trypipe function\n" + body + "\n}\nrmw"
	}
	die("rm: unknown mode %q", c.Mode)
	return ""
}

func rmModeCoq(m string) string {
	switch m {
	case "normal":
		return "RmNormal"
	case "try":
		return "RmBlockTry"
	case "trypipe":
		return "RmBlockTryPipe"
	case "tryerr":
		return "RmBlockTryErr"
	case "trypipeerr":
		return "RmBlockTryPipeErr"
	case "fntryerr":
		return "RmFunctionTryErr"
	case "fntrypipeerr":
		return "RmFunctionTryPipeErr"
	case "fntry":
		return "RmFunctionTry"
	case "fntrypipe":
		return "RmFunctionTryPipe"
	}
	die("rm: unknown mode %q", m)
	return ""
}

// rmFlat lists the stages in process order with, for each, whether the process
// after it is joined by && or || (decides what a boolean expression prints).
func rmTok(c rmCase, pi, si int) string {
	s := c.P[pi].S[si]
	switch s.K {
	case "true", "false":
		// builtins/core/expressions: a boolean result is not written when the
		// next process carries && or ||
		if si == len(c.P[pi].S)-1 && pi+1 < len(c.P) && (c.P[pi+1].J == "&&" || c.P[pi+1].J == "||") {
			return ""
		}
		return s.K
	case "out":
		return fmt.Sprintf("o%d\n", s.N)
	case "err", "s0":
		return ""
	case "gs0":
		return ""
	}
	return fmt.Sprintf("t%d\n", s.N)
}

// rmErrTok: what the command writes to stderr.
func rmErrTok(s rmStage) string {
	switch s.K {
	case "err":
		return fmt.Sprintf("e%d\n", s.N)
	case "s0", "b0", "gs0":
		return fmt.Sprintf("t%d\n", s.N)
	}
	return ""
}

func rmCmdCoq(c rmCase, pi, si int) string {
	s := c.P[pi].S[si]
	return coqlit.Record("c_exit", coqlit.Z(int64(rmExit(s.K))), "c_tok", coqlit.Bytes(rmTok(c, pi, si)),
		"c_fwd", coqlit.Bool(rmFwd(s.K)), "c_err", coqlit.Bytes(rmErrTok(s)))
}

func rmProgCoq(c rmCase) string {
	pls := make([]string, len(c.P))
	for pi, p := range c.P {
		j := "JSemi"
		switch p.J {
		case "&&":
			j = "JAnd"
		case "||":
			j = "JOr"
		}
		if pi == 0 {
			j = "JSemi"
		}
		rest := []string{}
		for si := 1; si < len(p.S); si++ {
			rest = append(rest, rmCmdCoq(c, pi, si))
		}
		pls[pi] = "(" + j + ", (" + rmCmdCoq(c, pi, 0) + ", " + coqlit.List(rest) + "))"
	}
	return coqlit.List(pls)
}

// rmFlags parses the chain with the real block parser and returns, per process,
// (not NewChain = what createProcess stores in IsMethod, LogicAnd, LogicOr).
func rmFlags(body string) (string, string) {
	tree, err := lang.ParseBlock([]rune(body))
	if err != nil || tree == nil {
		return "[]", "parse-error"
	}
	el := make([]string, len(*tree))
	var txt strings.Builder
	for i, f := range *tree {
		m, a, o := !f.Properties.NewChain(), f.Properties.LogicAnd(), f.Properties.LogicOr()
		el[i] = "(" + coqlit.Bool(m) + ", " + coqlit.Bool(a) + ", " + coqlit.Bool(o) + ")"
		for _, x := range []struct {
			b bool
			c byte
		}{{m, 'm'}, {a, 'a'}, {o, 'o'}} {
			if x.b {
				txt.WriteByte(x.c)
			} else {
				txt.WriteByte('-')
			}
		}
		txt.WriteByte(' ')
	}
	return coqlit.List(el), strings.TrimSpace(txt.String())
}

// rmRun executes the case and returns the observation and its Gallina rendering
// (an `obs` record and the flag list).
func rmRun(c rmCase) (rmObs, string, string) {
	rmInit()
	src := rmSource(c)
	r := RunMurex(src, 60*time.Second)
	flagsCoq, flagsTxt := rmFlags(rmBody(c))
	o := rmObs{Out: r.Stdout, Exit: r.ExitNum, Flags: flagsTxt, Timeout: r.Timeout, Src: src}
	if r.Timeout {
		o.Exit = -99998
	}
	if r.Err {
		o.Exit = -99997
	}
	obs := coqlit.Record("o_out", coqlit.Bytes(o.Out), "o_exit", coqlit.Z(int64(o.Exit)))
	return o, obs, flagsCoq
}

// ---- generation helpers -------------------------------------------------

var rmHeadKinds = []string{"true", "false", "out", "err", "f0", "f1", "f7"}
var rmStageKinds = []string{"g0", "g1", "g7", "g0", "g1", "out", "f0", "f1", "true", "false"}
var rmJoiners = []string{";", "&&", "||"}

// rmPick chooses a concrete command for an abstract outcome class:
// 'o' succeeds, 'x' fails with 1, 'y' fails with 7.
func rmPick(rng *rand.Rand, class byte) string {
	switch class {
	case 'o':
		return []string{"true", "out", "f0"}[rng.Intn(3)]
	case 'x':
		return []string{"false", "err", "f1"}[rng.Intn(3)]
	case 's':
		return "s0"
	case 'b':
		return "b0"
	}
	return "f7"
}

func rmPickStage(rng *rand.Rand, class byte) string {
	switch class {
	case 'o':
		return []string{"g0", "g0", "out", "f0"}[rng.Intn(4)]
	case 'x':
		return []string{"g1", "g1", "f1", "false"}[rng.Intn(4)]
	case 's':
		return "gs0"
	case 'O': // forwarding stages only (tryerr: the head must have finished writing)
		return "g0"
	case 'X':
		return "g1"
	}
	return []string{"g7", "f7"}[rng.Intn(2)]
}

// rmRandomErr: a random chain for the *err modes: commands that write to stderr
// are frequent; stages after the first always read their stdin to the end, so
// that under tryerr every earlier stage has finished writing when the last one
// is checked.
func rmRandomErr(rng *rand.Rand, mode string, nproc int) rmCase {
	heads := []string{"out", "out", "s0", "s0", "b0", "err", "true", "false", "f0", "f1", "f7"}
	stages := []string{"g0", "g0", "g1", "gs0", "gs0", "g7"}
	c := rmCase{Mode: mode}
	left := nproc
	for left > 0 {
		p := rmPipe{J: rmJoiners[rng.Intn(3)]}
		if p.J == ";" && rng.Intn(3) == 0 {
			p.NL = true
		}
		n := 1
		if rng.Intn(10) < 4 {
			n = 2 + rng.Intn(2)
		}
		if n > left {
			n = left
		}
		for k := 0; k < n; k++ {
			if k == 0 {
				p.S = append(p.S, rmStage{K: heads[rng.Intn(len(heads))]})
			} else {
				p.S = append(p.S, rmStage{K: stages[rng.Intn(len(stages))], A: rng.Intn(5) == 0})
			}
		}
		left -= n
		c.P = append(c.P, p)
	}
	c.P[0].J, c.P[0].NL = ";", false
	rmNumber(&c)
	return c
}

// rmNumber gives every stage its position as token number.
func rmNumber(c *rmCase) {
	n := 0
	for pi := range c.P {
		for si := range c.P[pi].S {
			n++
			c.P[pi].S[si].N = n
		}
	}
}

// rmUnits: abstract units used by the exhaustive part. A unit is a pipeline
// given by the outcome classes of its stages, e.g. "o", "x", "y", "oo", "xo", "ox".
func rmFromUnits(rng *rand.Rand, mode string, units []string, joins []string) rmCase {
	c := rmCase{Mode: mode}
	for i, u := range units {
		p := rmPipe{J: ";"}
		if i > 0 {
			p.J = joins[i-1]
			if p.J == ";" && rng.Intn(3) == 0 {
				p.NL = true
			}
		}
		for k := 0; k < len(u); k++ {
			if k == 0 {
				p.S = append(p.S, rmStage{K: rmPick(rng, u[k])})
			} else {
				p.S = append(p.S, rmStage{K: rmPickStage(rng, u[k]), A: rng.Intn(5) == 0})
			}
		}
		c.P = append(c.P, p)
	}
	rmNumber(&c)
	return c
}

// rmExhaustive emits every chain of exactly n units over the given unit
// alphabet and joiner alphabet.
func rmExhaustive(rng *rand.Rand, mode string, n int, units, joins []string, emit func(rmCase)) {
	us := make([]string, n)
	js := make([]string, n-1)
	var rec func(i int)
	rec = func(i int) {
		if i == n {
			emit(rmFromUnits(rng, mode, us, js))
			return
		}
		for _, u := range units {
			us[i] = u
			if i == 0 {
				rec(i + 1)
				continue
			}
			for _, j := range joins {
				js[i-1] = j
				rec(i + 1)
			}
		}
	}
	rec(0)
}

// rmRandom: a random chain of nproc processes in total (pipelines of 1..3 stages).
func rmRandom(rng *rand.Rand, mode string, nproc int, pipeBias int) rmCase {
	c := rmCase{Mode: mode}
	left := nproc
	for left > 0 {
		p := rmPipe{J: rmJoiners[rng.Intn(3)]}
		if rng.Intn(4) == 0 {
			p.J = "||" // bias to `||` runs, where the old schedulers went wrong
		}
		if p.J == ";" && rng.Intn(3) == 0 {
			p.NL = true
		}
		stages := 1
		if rng.Intn(10) < pipeBias {
			stages = 2 + rng.Intn(2)
		}
		if stages > left {
			stages = left
		}
		for k := 0; k < stages; k++ {
			if k == 0 {
				p.S = append(p.S, rmStage{K: rmHeadKinds[rng.Intn(len(rmHeadKinds))]})
			} else {
				p.S = append(p.S, rmStage{K: rmStageKinds[rng.Intn(len(rmStageKinds))], A: rng.Intn(5) == 0})
			}
		}
		left -= stages
		c.P = append(c.P, p)
	}
	c.P[0].J = ";"
	c.P[0].NL = false
	rmNumber(&c)
	return c
}

// rmClass: distribution bucket.
func rmClass(c rmCase) string {
	n, pipes, ors, ands := 0, false, 0, 0
	oror := false
	for i, p := range c.P {
		n += len(p.S)
		if len(p.S) > 1 {
			pipes = true
		}
		if i > 0 && p.J == "||" {
			ors++
			if i > 1 && c.P[i-1].J == "||" {
				oror = true
			}
		}
		if i > 0 && p.J == "&&" {
			ands++
		}
	}
	s := c.Mode + "/"
	switch {
	case n <= 2:
		s += "len1-2"
	case n <= 5:
		s += "len3-5"
	default:
		s += "len6+"
	}
	if pipes {
		s += "/pipe"
	}
	if oror {
		s += "/oror"
	}
	return s
}

// rmNontrivial: at least two pipelines, at least one `&&`/`||` (normal) or one
// failing command (try modes).
func rmNontrivial(c rmCase) bool {
	if len(c.P) < 2 {
		return false
	}
	logic, fails := false, false
	for i, p := range c.P {
		if i > 0 && p.J != ";" {
			logic = true
		}
		for _, s := range p.S {
			if rmExit(s.K) != 0 {
				fails = true
			}
		}
	}
	if c.Mode == "normal" {
		return logic
	}
	return fails
}

// rmShrink proposes smaller variants: drop one pipeline, drop one stage, or
// replace a joiner by `;`.
func rmShrink(c rmCase) []rmCase {
	var out []rmCase
	cp := func() rmCase {
		d := rmCase{Mode: c.Mode}
		for _, p := range c.P {
			q := rmPipe{J: p.J, NL: p.NL, S: append([]rmStage(nil), p.S...)}
			d.P = append(d.P, q)
		}
		return d
	}
	for i := range c.P {
		if len(c.P) > 1 {
			d := cp()
			d.P = append(d.P[:i], d.P[i+1:]...)
			d.P[0].J, d.P[0].NL = ";", false
			out = append(out, d)
		}
		for k := range c.P[i].S {
			if len(c.P[i].S) > 1 && k > 0 {
				d := cp()
				d.P[i].S = append(d.P[i].S[:k], d.P[i].S[k+1:]...)
				out = append(out, d)
			}
		}
		if i > 0 && c.P[i].J != ";" {
			d := cp()
			d.P[i].J = ";"
			out = append(out, d)
		}
	}
	return out
}
