//go:build prop_c39 || prop_all

package main

// C39 — break, continue and return affect only the named block.
// Cases are programs of the structured language of coq/theories/Model/Control.v; each is
// printed as murex code, run in-process, and its stdout lines / exit number are the observation.

import (
	"encoding/json"
	"fmt"
	"math/rand"
	"runtime"
	"strconv"
	"strings"
	"sync"
	"time"

	"github.com/lmorg/murex/lang"

	"verifharness/coqlit"
)

type c39Node struct {
	K    string    `json:"k"`              // out if foreach while call break continue return
	T    int       `json:"t,omitempty"`    // out: tag
	Cond string    `json:"c,omitempty"`    // if: true | false | eq
	ID   int       `json:"id,omitempty"`   // loop id / eq: loop id
	M    int       `json:"m,omitempty"`    // eq: value
	N    int       `json:"n,omitempty"`    // loop: iterations
	F    int       `json:"f,omitempty"`    // call: function id (>= 1)
	Name string    `json:"nm,omitempty"`   // break / continue: if foreach while fN (f0 = the program itself)
	X    int       `json:"x,omitempty"`    // return: exit number
	Body []c39Node `json:"body,omitempty"` // if / switch (case) / loops / try / call
	Else []c39Node `json:"else,omitempty"` // if: else block; switch: default block
}

type c39Case struct {
	Main  []c39Node `json:"main"`
	Class string    `json:"class"`
	Runs  int       `json:"runs,omitempty"` // > 1: run that many times under schedule perturbation, outputs must be identical
}

type c39Obs struct {
	Lines   []string `json:"lines"`
	Exit    int      `json:"exit"`
	Timeout bool     `json:"timeout,omitempty"`
	Odd     string   `json:"odd,omitempty"`
}

type c39 struct{}

func init() { register("C39", c39{}) }

// ---------------------------------------------------------------- printing as murex code

func c39MxName(nm string) string {
	if nm == "f0" {
		return "verif" // the name RunMurex gives the function fork the program runs in
	}
	return nm
}

func c39Emit(b *strings.Builder, defs *strings.Builder, nodes []c39Node, ind string) {
	for _, n := range nodes {
		switch n.K {
		case "out":
			fmt.Fprintf(b, "%sout t%d\n", ind, n.T)
		case "if":
			c := n.Cond
			if c == "eq" {
				c = fmt.Sprintf("$v%d == %d", n.ID, n.M)
			}
			fmt.Fprintf(b, "%sif { %s } then {\n", ind, c)
			c39Emit(b, defs, n.Body, ind+"  ")
			if len(n.Else) > 0 {
				fmt.Fprintf(b, "%s} else {\n", ind)
				c39Emit(b, defs, n.Else, ind+"  ")
			}
			fmt.Fprintf(b, "%s}\n", ind)
		case "switch":
			c := n.Cond
			if c == "eq" {
				c = fmt.Sprintf("$v%d == %d", n.ID, n.M)
			}
			fmt.Fprintf(b, "%sswitch {\n%s  case { %s } {\n", ind, ind, c)
			c39Emit(b, defs, n.Body, ind+"    ")
			fmt.Fprintf(b, "%s  }\n%s  default {\n", ind, ind)
			c39Emit(b, defs, n.Else, ind+"    ")
			fmt.Fprintf(b, "%s  }\n%s}\n", ind, ind)
		case "formap":
			fmt.Fprintf(b, "%sa [1..%d] -> formap k%d v%d {\n", ind, n.N, n.ID, n.ID)
			c39Emit(b, defs, n.Body, ind+"  ")
			fmt.Fprintf(b, "%s}\n", ind)
		case "for":
			fmt.Fprintf(b, "%sfor {$v%d=1; $v%d<%d; $v%d++} {\n", ind, n.ID, n.ID, n.N+1, n.ID)
			c39Emit(b, defs, n.Body, ind+"  ")
			fmt.Fprintf(b, "%s}\n", ind)
		case "while1":
			fmt.Fprintf(b, "%sv%d = 0\n%swhile {\n%s  v%d = $v%d + 1\n", ind, n.ID, ind, ind, n.ID, n.ID)
			c39Emit(b, defs, n.Body, ind+"  ")
			fmt.Fprintf(b, "%s  $v%d < %d\n%s}\n", ind, n.ID, n.N, ind)
		case "try", "trypipe":
			fmt.Fprintf(b, "%s%s {\n", ind, n.K)
			c39Emit(b, defs, n.Body, ind+"  ")
			fmt.Fprintf(b, "%s}\n", ind)
		case "breakany":
			fmt.Fprintf(b, "%sbreak\n", ind)
		case "foreach":
			fmt.Fprintf(b, "%sa [1..%d] -> foreach v%d {\n", ind, n.N, n.ID)
			c39Emit(b, defs, n.Body, ind+"  ")
			fmt.Fprintf(b, "%s}\n", ind)
		case "while":
			fmt.Fprintf(b, "%sv%d = 0\n%swhile { $v%d < %d } {\n%s  v%d = $v%d + 1\n", ind, n.ID, ind, n.ID, n.N, ind, n.ID, n.ID)
			c39Emit(b, defs, n.Body, ind+"  ")
			fmt.Fprintf(b, "%s}\n", ind)
		case "call":
			var fb strings.Builder
			fmt.Fprintf(&fb, "function f%d {\n", n.F)
			c39Emit(&fb, defs, n.Body, "  ")
			fb.WriteString("}\n")
			defs.WriteString(fb.String())
			fmt.Fprintf(b, "%sf%d\n%sexitnum\n", ind, n.F, ind)
		case "break":
			fmt.Fprintf(b, "%sbreak %s\n", ind, c39MxName(n.Name))
		case "continue":
			fmt.Fprintf(b, "%scontinue %s\n", ind, c39MxName(n.Name))
		case "return":
			fmt.Fprintf(b, "%sreturn %d\n", ind, n.X)
		default:
			die("C39: bad node kind %q", n.K)
		}
	}
}

func c39Program(main []c39Node) string {
	var defs, body strings.Builder
	c39Emit(&body, &defs, main, "")
	return defs.String() + body.String()
}

// ---------------------------------------------------------------- printing as a Coq term

func c39CoqName(nm string) string {
	switch nm {
	case "if":
		return "NIf"
	case "foreach":
		return "NForeach"
	case "while":
		return "NWhile"
	case "for":
		return "NFor"
	case "formap":
		return "NFormap"
	case "switch":
		return "NSwitch"
	case "try":
		return "NTry"
	case "trypipe":
		return "NTrypipe"
	}
	k, _ := strconv.Atoi(strings.TrimPrefix(nm, "f"))
	return fmt.Sprintf("(NFunc %d)", k)
}

func c39CoqBlock(nodes []c39Node) string {
	var b strings.Builder
	for _, n := range nodes {
		b.WriteString("(BCons ")
		switch n.K {
		case "out":
			fmt.Fprintf(&b, "(Out %d)", n.T)
		case "if":
			c := "CTrue"
			switch n.Cond {
			case "false":
				c = "CFalse"
			case "eq":
				c = fmt.Sprintf("(CEq %d %d)", n.ID, n.M)
			}
			fmt.Fprintf(&b, "(Branch BIf %s %s %s)", c, c39CoqBlock(n.Body), c39CoqBlock(n.Else))
		case "switch":
			c := "CTrue"
			switch n.Cond {
			case "false":
				c = "CFalse"
			case "eq":
				c = fmt.Sprintf("(CEq %d %d)", n.ID, n.M)
			}
			fmt.Fprintf(&b, "(Branch BSwitch %s %s %s)", c, c39CoqBlock(n.Body), c39CoqBlock(n.Else))
		case "foreach", "while", "for", "formap", "while1":
			lk := map[string]string{"foreach": "LForeach", "while": "LWhile", "for": "LFor", "formap": "LFormap", "while1": "LWhile1"}[n.K]
			fmt.Fprintf(&b, "(Loop %s %d %s %s)", lk, n.ID, coqlit.Nat(n.N), c39CoqBlock(n.Body))
		case "try":
			fmt.Fprintf(&b, "(Try false %s)", c39CoqBlock(n.Body))
		case "trypipe":
			fmt.Fprintf(&b, "(Try true %s)", c39CoqBlock(n.Body))
		case "breakany":
			b.WriteString("BreakAny")
		case "call":
			fmt.Fprintf(&b, "(Call %d %s)", n.F, c39CoqBlock(n.Body))
		case "break":
			fmt.Fprintf(&b, "(Break %s)", c39CoqName(n.Name))
		case "continue":
			fmt.Fprintf(&b, "(Continue %s)", c39CoqName(n.Name))
		case "return":
			fmt.Fprintf(&b, "(Return %s)", coqlit.Z(int64(n.X)))
		}
		b.WriteString(" ")
	}
	b.WriteString("BNil")
	b.WriteString(strings.Repeat(")", len(nodes)))
	return b.String()
}

// ---------------------------------------------------------------- generator

type c39Gen struct {
	r      *rand.Rand
	nextID int
	nextF  int
	nextT  int
	direct bool // allow `continue` directly in the block it names (known finding 1)
	outer  []string // block names of the callers (across function boundaries), innermost first
}

// a block name of a caller that no block of the current function has
func (g *c39Gen) foreignName(encl []string) (string, bool) {
	cand := []string{}
	for _, nm := range g.outer {
		nm = c39Base(nm)
		found := false
		for _, e := range encl {
			found = found || c39Base(e) == nm
		}
		if !found {
			cand = append(cand, nm)
		}
	}
	if len(cand) == 0 {
		return "", false
	}
	return cand[g.r.Intn(len(cand))], true
}

type c39Loop struct{ id, n int }

// an entry of encl is a block name; "while!" is a one-block while (its name is `while`)
func c39Base(nm string) string { return strings.TrimSuffix(nm, "!") }

// the entry a name resolves to: the innermost one with that base name
func c39Resolve(encl []string, nm string) int {
	for i, e := range encl {
		if c39Base(e) == nm {
			return i
		}
	}
	return -1
}

// encl: names of the enclosing blocks in the current function, innermost first
func (g *c39Gen) block(depth int, encl []string, loops []c39Loop, minLen int) []c39Node {
	n := minLen + g.r.Intn(3)
	if n == 0 {
		n = 1
	}
	out := make([]c39Node, 0, n)
	for i := 0; i < n; i++ {
		out = append(out, g.stmt(depth, encl, loops))
	}
	return out
}

func (g *c39Gen) tag() int { g.nextT++; return g.nextT }

func (g *c39Gen) cond(loops []c39Loop) c39Node {
	nd := c39Node{K: "if"}
	switch k := g.r.Intn(10); {
	case k < 2 || len(loops) == 0 && k < 7:
		nd.Cond = "true"
	case k < 3 || len(loops) == 0:
		nd.Cond = "false"
	default:
		l := loops[g.r.Intn(len(loops))]
		if g.r.Intn(3) != 0 {
			l = loops[0] // innermost
		}
		nd.Cond, nd.ID, nd.M = "eq", l.id, 1+g.r.Intn(l.n)
	}
	return nd
}

func (g *c39Gen) jump(encl []string) c39Node {
	// inside a called function: name a block that only a caller has (the function boundary)
	if nm, ok := g.foreignName(encl); ok && g.r.Intn(3) == 0 && encl[0] != "try" && encl[0] != "trypipe" {
		if len(encl) >= 2 && g.r.Intn(3) == 0 {
			return c39Node{K: "continue", Name: nm}
		}
		return c39Node{K: "break", Name: nm}
	}
	pick := func() string { return c39Base(encl[g.r.Intn(len(encl))]) }
	switch k := g.r.Intn(20); {
	case k < 7:
		return c39Node{K: "break", Name: pick()}
	case k < 8:
		return c39Node{K: "breakany"}
	case k < 16:
		// continue: nested in at least one block, not naming the innermost block, not
		// resolving to a one-block while - unless the known findings are wanted
		cand := []string{}
		for _, e := range encl {
			nm := c39Base(e)
			i := c39Resolve(encl, nm)
			ok := len(encl) >= 2 && i >= 1 && !strings.HasSuffix(encl[i], "!")
			if ok || g.direct && (i == 0 && !strings.HasSuffix(encl[0], "!")) {
				cand = append(cand, nm)
			}
		}
		if len(cand) > 0 {
			return c39Node{K: "continue", Name: cand[g.r.Intn(len(cand))]}
		}
		return c39Node{K: "break", Name: pick()}
	default:
		return c39Node{K: "return", X: []int{0, 1, 3, 7, 2, 9}[g.r.Intn(6)]}
	}
}

// the exit number of an unresolved `break` (an error, 1) is not modelled: it must not be the last
// statement of a function body; most bodies end with whatever the generator produced, some with `out`
func (g *c39Gen) finishBody(body []c39Node, encl []string) []c39Node {
	last := body[len(body)-1]
	unresolved := last.K == "break" && c39Resolve(encl, last.Name) < 0
	if unresolved || g.r.Intn(3) == 0 {
		body = append(body, c39Node{K: "out", T: g.tag()})
	}
	return body
}

func (g *c39Gen) stmt(depth int, encl []string, loops []c39Loop) c39Node {
	k := g.r.Intn(100)
	if depth <= 0 && k >= 45 && k < 88 {
		k = g.r.Intn(45)
	}
	switch {
	case k < 30:
		return c39Node{K: "out", T: g.tag()}
	case k < 45:
		// a jump, usually guarded by a condition so that some iterations run on
		j := g.jump(encl)
		if g.r.Intn(4) == 0 {
			return j
		}
		nd := g.cond(loops)
		body := []c39Node{}
		if g.r.Intn(2) == 0 {
			body = append(body, c39Node{K: "out", T: g.tag()})
		}
		// the jump sits inside this `if`: names resolve against the extended list
		inner := append([]string{"if"}, encl...)
		j = g.jump(inner)
		body = append(body, j)
		if g.r.Intn(2) == 0 {
			body = append(body, c39Node{K: "out", T: g.tag()})
		}
		nd.Body = body
		return nd
	case k < 54:
		nd := g.cond(loops)
		nd.Body = g.block(depth-1, append([]string{"if"}, encl...), loops, 1)
		if g.r.Intn(3) == 0 {
			nd.Else = g.block(depth-1, append([]string{"if"}, encl...), loops, 1)
		}
		return nd
	case k < 59:
		nd := g.cond(loops)
		nd.K = "switch"
		nd.Body = g.block(depth-1, append([]string{"switch"}, encl...), loops, 1)
		nd.Else = g.block(depth-1, append([]string{"switch"}, encl...), loops, 1)
		return nd
	case k < 75:
		g.nextID++
		l := c39Loop{g.nextID, 1 + g.r.Intn(3)}
		kinds := []string{"foreach", "foreach", "while", "while", "for", "formap", "while1"}
		kind := kinds[g.r.Intn(len(kinds))]
		nm := kind
		if kind == "while1" {
			nm = "while!"
		}
		return c39Node{K: kind, ID: l.id, N: l.n,
			Body: g.block(depth-1, append([]string{nm}, encl...), append([]c39Loop{l}, loops...), 1)}
	case k < 81:
		kind := "try"
		if g.r.Intn(3) == 0 {
			kind = "trypipe"
		}
		return c39Node{K: kind, Body: g.block(depth-1, append([]string{kind}, encl...), loops, 2)}
	case k < 88:
		g.nextF++
		f := g.nextF
		saved := g.outer
		g.outer = append(append([]string{}, encl...), g.outer...)
		body := g.block(depth-1, []string{fmt.Sprintf("f%d", f)}, nil, 1)
		g.outer = saved
		body = g.finishBody(body, []string{fmt.Sprintf("f%d", f)})
		return c39Node{K: "call", F: f, Body: body}
	default:
		return c39Node{K: "out", T: g.tag()}
	}
}

func c39GenProgram(r *rand.Rand, depth int, direct bool) []c39Node {
	g := &c39Gen{r: r, direct: direct}
	main := g.block(depth, []string{"f0"}, nil, 2)
	return g.finishBody(main, []string{"f0"})
}

func c39Out(t int) c39Node { return c39Node{K: "out", T: t} }

// c39Boundary: a helper function (1-2 calls deep) says `break NAME` / `continue NAME` where NAME
// is a block of its CALLER only; the caller's block must carry on.
func c39Boundary(r *rand.Rand) []c39Node {
	t := 0
	out := func() c39Node { t++; return c39Out(t) }
	kinds := []string{"foreach", "while", "if", "foreach", "while", "for", "formap", "switch", "try", "trypipe"}
	kind := kinds[r.Intn(len(kinds))]
	id := 0
	loop := func(k string, body []c39Node) c39Node {
		id++
		switch k {
		case "if", "try", "trypipe":
			return c39Node{K: k, Cond: "true", Body: body}
		case "switch":
			return c39Node{K: k, Cond: "true", Body: body, Else: []c39Node{out()}}
		default:
			return c39Node{K: k, ID: id, N: 2 + r.Intn(2), Body: body}
		}
	}
	// the jump, inside the helper
	jump := c39Node{K: "break", Name: kind}
	nested := r.Intn(3) // 0: directly in the function body, 1: in an if, 2: in a loop of another kind
	if kind != "foreach" && kind != "while" && kind != "for" && kind != "formap" && jump.K == "continue" {
		jump.K = "break"
	}
	if kind == "if" && nested == 1 {
		nested = 2 // an `if` around the jump would be the block it names
	}
	if nested > 0 && r.Intn(3) == 0 {
		jump.K = "continue"
	}
	var inner []c39Node
	switch nested {
	case 0:
		inner = []c39Node{out(), jump, out()}
	case 1:
		inner = []c39Node{out(), {K: "if", Cond: "true", Body: []c39Node{jump, out()}}, out()}
	default:
		other := "while"
		if kind == "while" {
			other = "foreach"
		}
		l := loop(other, nil)
		l.Body = []c39Node{out(), {K: "if", Cond: "eq", ID: l.ID, M: 2, Body: []c39Node{jump}}, out()}
		inner = []c39Node{l, out()}
	}
	f := 1
	call := c39Node{K: "call", F: f, Body: inner}
	if r.Intn(2) == 0 { // two calls deep
		f++
		call = c39Node{K: "call", F: f, Body: []c39Node{out(), call, out()}}
	}
	callerBody := []c39Node{out(), call, out()}
	if r.Intn(3) == 0 { // the call sits in an `if` inside the caller's block
		callerBody = []c39Node{out(), {K: "if", Cond: "true", Body: []c39Node{call, out()}}, out()}
	}
	main := []c39Node{loop(kind, callerBody), out()}
	if r.Intn(3) == 0 { // the caller is itself a function
		f++
		main = []c39Node{{K: "call", F: f, Body: append(main[:1:1], out())}, out()}
	}
	return main
}

// c39RetLast: functions (1-2 calls deep) and the program itself whose LAST statement is a block
// that holds the `return n` (an if / switch / try, a loop ended by the return, nested 1-3 deep);
// the call's exit number is shown by `exitnum`, the program's is its own exit number.
func c39RetLast(r *rand.Rand) []c39Node {
	t := 0
	id := 0
	out := func() c39Node { t++; return c39Out(t) }
	var wrap func(depth int, inner []c39Node) c39Node
	wrap = func(depth int, inner []c39Node) c39Node {
		kinds := []string{"if", "foreach", "while", "for", "formap", "switch", "try", "trypipe", "if", "foreach", "while1"}
		k := kinds[r.Intn(len(kinds))]
		body := inner
		if depth > 1 {
			body = []c39Node{wrap(depth-1, inner)}
		}
		if r.Intn(2) == 0 {
			body = append([]c39Node{out()}, body...)
		}
		switch k {
		case "if":
			return c39Node{K: "if", Cond: "true", Body: body}
		case "switch":
			return c39Node{K: "switch", Cond: "true", Body: body, Else: []c39Node{out()}}
		case "try", "trypipe":
			return c39Node{K: k, Body: body}
		default:
			id++
			n := 2 + r.Intn(2)
			// the return fires in iteration 1 or 2
			g := c39Node{K: "if", Cond: "eq", ID: id, M: 1 + r.Intn(2), Body: body}
			return c39Node{K: k, ID: id, N: n, Body: []c39Node{g, out()}}
		}
	}
	ret := func() []c39Node {
		x := []int{0, 1, 3, 7}[r.Intn(4)]
		return []c39Node{{K: "return", X: x}}
	}
	fn := func(f int, extra []c39Node) c39Node {
		body := []c39Node{}
		if r.Intn(2) == 0 {
			body = append(body, out())
		}
		body = append(body, extra...)
		body = append(body, wrap(1+r.Intn(3), ret()))
		return c39Node{K: "call", F: f, Body: body}
	}
	main := []c39Node{out(), fn(1, nil)}
	if r.Intn(2) == 0 { // a second function whose last statement is ... a block whose last statement is the failing call
		main = append(main, fn(2, []c39Node{fn(3, nil)}))
	}
	main = append(main, out())
	if r.Intn(2) == 0 { // the program itself ends with such a block
		main = append(main, wrap(1+r.Intn(2), ret()))
	}
	return main
}

// c39Pipeline: loops fed by a pipeline stage that keeps producing after the loop was cancelled:
// `a [1..N] -> foreach` with N much larger than the iteration that jumps, nested in another loop /
// try block / function; run several times under schedule perturbation.
func c39Pipeline(r *rand.Rand) []c39Node {
	t := 0
	out := func() c39Node { t++; return c39Out(t) }
	big := 15 + r.Intn(30)
	m := 1 + r.Intn(3)
	outerKinds := []string{"foreach", "while", "for", "formap", "if", "try", "trypipe"}
	ok := outerKinds[r.Intn(len(outerKinds))]
	var jump c39Node
	switch k := r.Intn(6); {
	case k < 2:
		jump = c39Node{K: "break", Name: "foreach"}
	case k < 3:
		jump = c39Node{K: "break", Name: ok}
	case k < 4:
		jump = c39Node{K: "return", X: r.Intn(4)}
	case k < 5 && ok != "if" && ok != "try" && ok != "trypipe" && ok != "foreach":
		jump = c39Node{K: "continue", Name: ok}
	default:
		jump = c39Node{K: "breakany"}
	}
	feeder := "foreach"
	if r.Intn(4) == 0 {
		feeder = "formap"
		if jump.K == "break" && jump.Name == "foreach" {
			jump.Name = "formap"
		}
	}
	innerBody := []c39Node{out(), {K: "if", Cond: "eq", ID: 2, M: m, Body: []c39Node{out(), jump, out()}}}
	if jump.K == "breakany" { // ends the `if` only: follow it by a named break so that the feeder is cut short
		innerBody = append(innerBody, c39Node{K: "if", Cond: "eq", ID: 2, M: m + 1, Body: []c39Node{{K: "break", Name: feeder}}})
	}
	innerBody = append(innerBody, out())
	inner := c39Node{K: feeder, ID: 2, N: big, Body: innerBody}
	if r.Intn(4) == 0 { // a second fed loop nested in the first
		inner.Body = append([]c39Node{{K: "foreach", ID: 3, N: 10 + r.Intn(10), Body: []c39Node{
			{K: "if", Cond: "eq", ID: 3, M: 2, Body: []c39Node{{K: "break", Name: "foreach"}}}, out()}}}, inner.Body...)
	}
	body := []c39Node{out(), inner, out()}
	var outer c39Node
	switch ok {
	case "if", "try", "trypipe":
		outer = c39Node{K: ok, Cond: "true", Body: body}
	default:
		outer = c39Node{K: ok, ID: 1, N: 2 + r.Intn(2), Body: body}
	}
	main := []c39Node{outer, out()}
	if r.Intn(2) == 0 {
		main = []c39Node{{K: "call", F: 1, Body: append(main[:1:1], out())}, out()}
	}
	return main
}

var c39Corpus = []c39Case{
	// the documentation's examples
	{Class: "corpus", Main: []c39Node{{K: "foreach", ID: 1, N: 3, Body: []c39Node{
		{K: "if", Cond: "eq", ID: 1, M: 2, Body: []c39Node{c39Out(1), {K: "continue", Name: "foreach"}, c39Out(2)}}, c39Out(3)}}, c39Out(4)}},
	{Class: "corpus", Main: []c39Node{{K: "foreach", ID: 1, N: 3, Body: []c39Node{
		{K: "if", Cond: "eq", ID: 1, M: 2, Body: []c39Node{c39Out(1), {K: "break", Name: "foreach"}, c39Out(2)}}, c39Out(3)}}, c39Out(4)}},
	{Class: "corpus", Main: []c39Node{{K: "call", F: 1, Body: []c39Node{c39Out(1), {K: "foreach", ID: 1, N: 3, Body: []c39Node{
		{K: "if", Cond: "eq", ID: 1, M: 2, Body: []c39Node{{K: "return", X: 5}, c39Out(2)}}, c39Out(3)}}, c39Out(4)}}, c39Out(5)}},
	// fixed defect: a later statement with the same name as the target ended the walk of `continue`
	{Class: "corpus", Main: []c39Node{{K: "foreach", ID: 1, N: 3, Body: []c39Node{
		{K: "if", Cond: "eq", ID: 1, M: 1, Body: []c39Node{{K: "continue", Name: "foreach"}}},
		{K: "foreach", ID: 2, N: 2, Body: []c39Node{c39Out(1)}}, c39Out(2)}}, c39Out(3)}},
	{Class: "corpus", Main: []c39Node{{K: "while", ID: 1, N: 3, Body: []c39Node{
		{K: "if", Cond: "eq", ID: 1, M: 2, Body: []c39Node{{K: "continue", Name: "while"}}},
		c39Out(1), {K: "while", ID: 2, N: 2, Body: []c39Node{c39Out(2)}}, c39Out(3)}}, c39Out(4)}},
	// known finding 1: `continue` directly in the block it names does nothing
	{Class: "corpus-direct", Main: []c39Node{{K: "foreach", ID: 1, N: 2, Body: []c39Node{c39Out(1), {K: "continue", Name: "foreach"}, c39Out(2)}}, c39Out(3)}},
	// seeded mutation C39-1: a helper's `break foreach` / `break while` must not end the caller's loop
	{Class: "corpus-boundary", Main: []c39Node{{K: "foreach", ID: 1, N: 3, Body: []c39Node{
		{K: "call", F: 1, Body: []c39Node{c39Out(1), {K: "if", Cond: "true", Body: []c39Node{{K: "break", Name: "foreach"}}}, c39Out(2)}}, c39Out(3)}}, c39Out(4)}},
	{Class: "corpus-boundary", Main: []c39Node{{K: "call", F: 2, Body: []c39Node{{K: "while", ID: 1, N: 3, Body: []c39Node{
		{K: "call", F: 1, Body: []c39Node{{K: "foreach", ID: 2, N: 2, Body: []c39Node{c39Out(1), {K: "if", Cond: "eq", ID: 2, M: 2, Body: []c39Node{{K: "break", Name: "while"}}}, c39Out(2)}}, c39Out(3)}},
		c39Out(4)}}, c39Out(5)}}, c39Out(6)}},
	{Class: "corpus-boundary", Main: []c39Node{{K: "if", Cond: "true", Body: []c39Node{
		{K: "call", F: 1, Body: []c39Node{c39Out(1), {K: "break", Name: "if"}, c39Out(2)}}, c39Out(3)}}, c39Out(4)}},
	// fixed defect: `for` / one-block `while` ended by break reported an error and exit number 1, which
	// ended the surrounding try block
	{Class: "corpus", Main: []c39Node{{K: "try", Body: []c39Node{{K: "for", ID: 1, N: 3, Body: []c39Node{
		c39Out(1), {K: "if", Cond: "eq", ID: 1, M: 2, Body: []c39Node{{K: "break", Name: "for"}}}}}, c39Out(2)}}, c39Out(3)}},
	{Class: "corpus", Main: []c39Node{{K: "try", Body: []c39Node{{K: "while1", ID: 1, N: 3, Body: []c39Node{
		c39Out(1), {K: "if", Cond: "eq", ID: 1, M: 2, Body: []c39Node{{K: "break", Name: "while"}}}}}, c39Out(2)}}, c39Out(3)}},
	// known finding 2: `continue while` in a one-block while cuts the block - which is the condition - short
	{Class: "corpus-while1-continue", Main: []c39Node{{K: "while1", ID: 1, N: 4, Body: []c39Node{
		{K: "if", Cond: "eq", ID: 1, M: 2, Body: []c39Node{{K: "continue", Name: "while"}}}, c39Out(1)}}, c39Out(2)}},
	// nameless break, switch as a target, try / trypipe: failed call ends the block, break try, return inside try
	{Class: "corpus", Main: []c39Node{{K: "foreach", ID: 1, N: 3, Body: []c39Node{c39Out(1),
		{K: "if", Cond: "eq", ID: 1, M: 2, Body: []c39Node{c39Out(2), {K: "breakany"}, c39Out(3)}}, c39Out(4)}}, c39Out(5)}},
	{Class: "corpus", Main: []c39Node{{K: "foreach", ID: 1, N: 2, Body: []c39Node{c39Out(1), {K: "breakany"}, c39Out(2)}}, c39Out(3)}},
	{Class: "corpus", Main: []c39Node{{K: "formap", ID: 1, N: 3, Body: []c39Node{
		{K: "switch", Cond: "eq", ID: 1, M: 2, Body: []c39Node{c39Out(1), {K: "break", Name: "switch"}, c39Out(2)}, Else: []c39Node{c39Out(3)}}, c39Out(4)}}, c39Out(5)}},
	{Class: "corpus", Main: []c39Node{{K: "try", Body: []c39Node{c39Out(1),
		{K: "call", F: 1, Body: []c39Node{c39Out(2), {K: "return", X: 3}, c39Out(3)}}, c39Out(4)}}, c39Out(5)}},
	{Class: "corpus", Main: []c39Node{{K: "trypipe", Body: []c39Node{{K: "foreach", ID: 1, N: 3, Body: []c39Node{
		{K: "try", Body: []c39Node{c39Out(1), {K: "if", Cond: "eq", ID: 1, M: 2, Body: []c39Node{{K: "break", Name: "try"}}}, c39Out(2)}}, c39Out(3)}}, c39Out(4)}}, c39Out(5)}},
	{Class: "corpus", Main: []c39Node{{K: "call", F: 1, Body: []c39Node{{K: "try", Body: []c39Node{c39Out(1), {K: "return", X: 3}, c39Out(2)}}, c39Out(3)}}, c39Out(4)}},
	{Class: "corpus", Main: []c39Node{{K: "try", Body: []c39Node{{K: "if", Cond: "true", Body: []c39Node{
		{K: "call", F: 1, Body: []c39Node{{K: "return", X: 2}, c39Out(1)}}, c39Out(2)}}, c39Out(3)}}, c39Out(4)}},
	{Class: "corpus", Main: []c39Node{{K: "try", Body: []c39Node{{K: "try", Body: []c39Node{c39Out(1), {K: "breakany"}, c39Out(2)}}, c39Out(3)}}, c39Out(4)}},
	// seeded mutation C39-2: `return n` inside an if / foreach / while that is the LAST statement of the function
	{Class: "corpus-retlast", Main: []c39Node{{K: "call", F: 1, Body: []c39Node{c39Out(1), {K: "if", Cond: "true", Body: []c39Node{{K: "return", X: 3}}}}}, c39Out(2)}},
	{Class: "corpus-retlast", Main: []c39Node{{K: "call", F: 1, Body: []c39Node{{K: "foreach", ID: 1, N: 3, Body: []c39Node{
		{K: "if", Cond: "eq", ID: 1, M: 2, Body: []c39Node{{K: "return", X: 5}}}, c39Out(1)}}}}, c39Out(2)}},
	{Class: "corpus-retlast", Main: []c39Node{{K: "call", F: 1, Body: []c39Node{{K: "while", ID: 1, N: 3, Body: []c39Node{
		c39Out(1), {K: "if", Cond: "eq", ID: 1, M: 2, Body: []c39Node{{K: "return", X: 7}}}}}}}, c39Out(2)}},
	{Class: "corpus-retlast", Main: []c39Node{c39Out(1), {K: "if", Cond: "true", Body: []c39Node{{K: "if", Cond: "true", Body: []c39Node{{K: "return", X: 3}}}}}}},
	{Class: "corpus-retlast", Main: []c39Node{{K: "call", F: 1, Body: []c39Node{{K: "if", Cond: "true", Body: []c39Node{{K: "return", X: 3}}}, c39Out(1)}}, c39Out(2)}},
	// break if / break out of nested loops / return at the top level
	{Class: "corpus", Main: []c39Node{{K: "if", Cond: "true", Body: []c39Node{c39Out(1), {K: "break", Name: "if"}, c39Out(2)}}, c39Out(3)}},
	{Class: "corpus", Main: []c39Node{{K: "foreach", ID: 1, N: 2, Body: []c39Node{{K: "while", ID: 2, N: 3, Body: []c39Node{
		c39Out(1), {K: "if", Cond: "eq", ID: 2, M: 2, Body: []c39Node{{K: "break", Name: "foreach"}}}, c39Out(2)}}, c39Out(3)}}, c39Out(4)}},
	{Class: "corpus", Main: []c39Node{c39Out(1), {K: "if", Cond: "true", Body: []c39Node{{K: "return", X: 3}}}, c39Out(2)}},
	{Class: "corpus", Main: []c39Node{{K: "foreach", ID: 1, N: 2, Body: []c39Node{{K: "call", F: 1, Body: []c39Node{
		{K: "foreach", ID: 2, N: 2, Body: []c39Node{c39Out(1), {K: "break", Name: "f1"}}}, c39Out(2)}}, c39Out(3)}}, c39Out(4)}},
}

func (c39) Gen(seed int64, tier string, emit func(any)) {
	for _, c := range c39Corpus {
		emit(c)
	}
	n := 700
	if tier == "thorough" {
		n = 9000
	}
	r := rand.New(rand.NewSource(seed))
	nb := 80
	if tier == "thorough" {
		nb = 600
	}
	for i := 0; i < nb; i++ {
		emit(c39Case{Main: c39Boundary(r), Class: "boundary"})
	}
	nr := 80
	if tier == "thorough" {
		nr = 600
	}
	for i := 0; i < nr; i++ {
		emit(c39Case{Main: c39RetLast(r), Class: "return-last"})
	}
	np := 60
	if tier == "thorough" {
		np = 400
	}
	for i := 0; i < np; i++ {
		emit(c39Case{Main: c39Pipeline(r), Class: "pipeline", Runs: 6 + r.Intn(3)})
	}
	for i := 0; i < n; i++ {
		depth := 2 + r.Intn(3)
		direct := r.Intn(40) == 0
		cl := fmt.Sprintf("random/depth%d", depth)
		if direct {
			cl = "random/direct-continue-allowed"
		}
		emit(c39Case{Main: c39GenProgram(r, depth, direct), Class: cl})
	}
}

// ---------------------------------------------------------------- run

func c39HasJump(nodes []c39Node) bool {
	for _, n := range nodes {
		if n.K == "break" || n.K == "breakany" || n.K == "continue" || n.K == "return" || c39HasJump(n.Body) || c39HasJump(n.Else) {
			return true
		}
	}
	return false
}

func (c39) Run(raw json.RawMessage) Result {
	var c c39Case
	if err := json.Unmarshal(raw, &c); err != nil {
		die("C39: bad case: %v", err)
	}
	prog := c39Program(c.Main)
	r := RunMurex(prog, 60*time.Second)
	odd := ""
	if c.Runs > 1 {
		// the same program under schedule perturbation (lang.VerifSetYield): identical output required
		for k := 1; k < c.Runs && odd == ""; k++ {
			var mu sync.Mutex
			pr := rand.New(rand.NewSource(int64(k)*7919 + int64(len(prog))))
			lang.VerifSetYield(func(site string) {
				mu.Lock()
				x := pr.Intn(8)
				mu.Unlock()
				switch {
				case x < 3:
					runtime.Gosched()
				case x < 5:
					time.Sleep(time.Duration(20+x*30) * time.Microsecond)
				case x < 6:
					time.Sleep(400 * time.Microsecond)
				}
			})
			r2 := RunMurex(prog, 60*time.Second)
			lang.VerifSetYield(nil)
			if r2.Stdout != r.Stdout || r2.ExitNum != r.ExitNum || r2.Timeout != r.Timeout {
				odd = fmt.Sprintf("schedule-dependent output (perturbed run %d): %q vs %q", k, r2.Stdout, r.Stdout)
			}
		}
	}
	// the condition statement of a one-block while prints true / false (without a new line)
	r.Stdout = strings.ReplaceAll(strings.ReplaceAll(r.Stdout, "true", ""), "false", "")
	o := c39Obs{Exit: r.ExitNum, Timeout: r.Timeout, Lines: []string{}, Odd: odd}
	toks := []string{}
	for _, l := range strings.Split(r.Stdout, "\n") {
		if l == "" {
			continue
		}
		o.Lines = append(o.Lines, l)
		if strings.HasPrefix(l, "t") {
			if k, err := strconv.Atoi(l[1:]); err == nil {
				toks = append(toks, fmt.Sprintf("TOut %d", k))
				continue
			}
		}
		if k, err := strconv.Atoi(l); err == nil {
			toks = append(toks, "TExit "+coqlit.Z(int64(k)))
			continue
		}
		o.Odd = l
		toks = append(toks, "TOut 999999") // never produced by a program: shows up as a disagreement
	}
	if r.Timeout {
		toks = append(toks, "TOut 999998")
	}
	if odd != "" {
		toks = append(toks, "TOut 999997")
	}
	coq := coqlit.Record("c_prog", c39CoqBlock(c.Main), "c_obs_out", coqlit.List(toks), "c_obs_exit", coqlit.Z(int64(o.Exit)))
	return Result{Obs: o, Coq: coq, Nontrivial: c39HasJump(c.Main), Class: c.Class}
}

// Shrink: delete one statement anywhere (never the last statement of a function body / of the
// program), or replace an `if` / loop by its body.
func c39Variants(nodes []c39Node, keepLast bool) [][]c39Node {
	var out [][]c39Node
	for i := range nodes {
		if !(keepLast && i == len(nodes)-1) && len(nodes) > 1 {
			v := append(append([]c39Node{}, nodes[:i]...), nodes[i+1:]...)
			out = append(out, v)
		}
		if len(nodes[i].Else) > 0 {
			for _, vb := range c39Variants(nodes[i].Else, nodes[i].K == "switch") {
				v := append([]c39Node{}, nodes...)
				nn := nodes[i]
				nn.Else = vb
				v[i] = nn
				out = append(out, v)
			}
		}
		if len(nodes[i].Body) > 0 {
			for _, vb := range c39Variants(nodes[i].Body, nodes[i].K == "call") {
				v := append([]c39Node{}, nodes...)
				nn := nodes[i]
				nn.Body = vb
				v[i] = nn
				out = append(out, v)
			}
		}
	}
	return out
}

func (c39) Shrink(raw json.RawMessage) []any {
	var c c39Case
	if err := json.Unmarshal(raw, &c); err != nil {
		return nil
	}
	var out []any
	for _, v := range c39Variants(c.Main, true) {
		out = append(out, c39Case{Main: v, Class: c.Class})
	}
	return out
}
