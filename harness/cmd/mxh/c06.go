//go:build prop_c06 || prop_all

package main

// C06 — Arithmetic and comparison expressions follow C precedence.
// Cases are token lists (with nested parenthesised groups); each is printed as
// murex source with varied spacing, evaluated by expressions.ExecuteExpr in
// process, and the resulting value (float64 by bit pattern, bool, string, null)
// or error kind is the observation.

import (
	"encoding/json"
	"fmt"
	"math/rand"

	"verifharness/coqlit"
)

type c06Case struct {
	Toks []exprTok `json:"toks"`
}

type c06 struct{}

func init() { register("C06", c06{}) }

var c06Arith = []string{"*", "/", "+", "-"}
var c06Rel = []string{"<", "<=", ">", ">="}
var c06Eq = []string{"==", "!="}
var c06All = []string{"*", "/", "+", "-", "<", "<=", ">", ">=", "==", "!="}

var c06Nums = []string{"0", "1", "2", "3", "4", "5", "6", "7", "8", "9", "10", "12", "16", "100",
	"-1", "-2", "-3", "-7", "0.5", "1.5", "2.5", "0.1", "0.2", "0.3", "1.50", "2.0", "007", "3.", "0.0", "-0",
	"0.25", "-0.5", "1000000", "123456789", "9007199254740993", "0.000001", "33", "1.1", "-1.1", "2.25"}

var c06Strs = []string{"", "a", "b", "ab", "abc", "B", "a b", "10", "9", "Z", "z", "aa", "abd", "\xc3\xa9", "~"}

func c06Join(ts ...exprTok) []exprTok { return ts }

type c06Gen struct {
	r *rand.Rand
}

func (g *c06Gen) pick(l []string) string { return l[g.r.Intn(len(l))] }

func (g *c06Gen) numLit() exprTok {
	if g.r.Intn(6) == 0 {
		// random decimal
		switch g.r.Intn(3) {
		case 0:
			return exprNum(fmt.Sprintf("%d", g.r.Intn(2000)-1000))
		case 1:
			return exprNum(fmt.Sprintf("%d.%d", g.r.Intn(100), g.r.Intn(1000)))
		default:
			return exprNum(fmt.Sprintf("-%d.%02d", g.r.Intn(50), g.r.Intn(100)))
		}
	}
	return exprNum(g.pick(c06Nums))
}

// numOperand: a literal, or a parenthesised numeric expression
func (g *c06Gen) numOperand(depth int) exprTok {
	if depth > 0 && g.r.Intn(3) == 0 {
		return exprGroup(g.numChain(depth - 1))
	}
	return g.numLit()
}

// numChain: operands joined by arithmetic operators, with random redundant /
// regrouping parentheses around a contiguous sub-chain
func (g *c06Gen) numChain(depth int) []exprTok {
	n := 1 + g.r.Intn(5)
	if g.r.Intn(8) == 0 {
		n += g.r.Intn(6)
	}
	ts := []exprTok{g.numOperand(depth)}
	for i := 1; i < n; i++ {
		ts = append(ts, exprOp(g.pick(c06Arith)), g.numOperand(depth))
	}
	if depth > 0 && n >= 2 && g.r.Intn(3) == 0 {
		// wrap operands i..j
		i := g.r.Intn(n)
		j := i + g.r.Intn(n-i)
		sub := append([]exprTok{}, ts[2*i:2*j+1]...)
		out := append([]exprTok{}, ts[:2*i]...)
		out = append(out, exprGroup(sub))
		out = append(out, ts[2*j+1:]...)
		ts = out
	}
	return ts
}

// relChain: arith REL arith, or 'str' REL 'str' — boolean typed, no == at this level
func (g *c06Gen) relChain(depth int) []exprTok {
	if g.r.Intn(4) == 0 {
		return c06Join(exprStr(g.pick(c06Strs)), exprOp(g.pick(append(c06Rel, c06Eq...))), exprStr(g.pick(c06Strs)))
	}
	ts := g.numChain(depth)
	rhs := g.numChain(depth)
	if g.r.Intn(4) == 0 {
		// equal sides: the boundary between < and <=, > and >=
		rhs = append([]exprTok{}, ts...)
	}
	ts = append(ts, exprOp(g.pick(c06Rel)))
	return append(ts, rhs...)
}

var c06MixStrs = []string{"10", " 10 ", "10.0", "007", "-3", "1e3", "0x10", "+5", "Inf", "NaN", "5.", "", " ", "abc", "10a", "a10", "1 0", "true", "9", "2.50"}

// mixedCmp: a number (literal, group or chain) against a string or a boolean, either way round
func (g *c06Gen) mixedCmp(depth int) []exprTok {
	num := g.numChain(depth)
	var other exprTok
	if g.r.Intn(4) == 0 {
		other = exprBool(g.r.Intn(2) == 0)
	} else {
		other = exprStr(g.pick(c06MixStrs))
	}
	op := exprOp(g.pick(append(append([]string{}, c06Rel...), c06Eq...)))
	if g.r.Intn(2) == 0 {
		return append(append(num, op), other)
	}
	return append([]exprTok{other, op}, num...)
}

// boolExpr: boolean typed expression
func (g *c06Gen) boolExpr(depth int) []exprTok {
	if g.r.Intn(6) == 0 {
		return g.mixedCmp(depth)
	}
	switch g.r.Intn(5) {
	case 0: // arith == arith
		ts := g.numChain(depth)
		ts = append(ts, exprOp(g.pick(c06Eq)))
		return append(ts, g.numChain(depth)...)
	case 1: // bool-operand ==/!= bool-operand (left-assoc chain of 2..3)
		ts := g.boolOperand(depth)
		k := 1 + g.r.Intn(2)
		for i := 0; i < k; i++ {
			ts = append(ts, exprOp(g.pick(c06Eq)))
			ts = append(ts, g.boolOperand(depth)...)
		}
		return ts
	default:
		return g.relChain(depth)
	}
}

// boolOperand: something boolean that can stand on one side of == at the same level
func (g *c06Gen) boolOperand(depth int) []exprTok {
	switch {
	case depth > 0 && g.r.Intn(3) == 0:
		return []exprTok{exprGroup(g.boolExpr(depth - 1))}
	case g.r.Intn(4) == 0:
		return []exprTok{exprBool(g.r.Intn(2) == 0)}
	default:
		return g.relChain(depth)
	}
}

// wild: any alternating token list over all literal kinds and the ten operators
// (a string is never mixed with numbers: comparing a string with a number goes
// through strconv.ParseFloat / FormatFloat, which the model does not cover)
func (g *c06Gen) wild(depth int) []exprTok { return g.wildM(depth, g.r.Intn(4) == 0) }

func (g *c06Gen) wildM(depth int, strs bool) []exprTok {
	operand := func() exprTok {
		switch g.r.Intn(10) {
		case 0:
			if strs {
				return exprStr(g.pick(c06Strs))
			}
		case 1:
			return exprBool(g.r.Intn(2) == 0)
		case 2:
			return exprNull()
		case 3, 4:
			if depth > 0 {
				return exprGroup(g.wildM(depth-1, strs))
			}
		}
		if strs {
			if g.r.Intn(3) == 0 {
				return exprBool(g.r.Intn(2) == 0)
			}
			return exprStr(g.pick(c06Strs))
		}
		return g.numLit()
	}
	n := 1 + g.r.Intn(5)
	ts := []exprTok{operand()}
	for i := 1; i < n; i++ {
		ts = append(ts, exprOp(g.pick(c06All)), operand())
	}
	return ts
}

func (c06) Gen(seed int64, tier string, emit func(any)) {
	// exhaustive, seed independent: every ordered pair / triple of operators on fixed operands
	vals := [][]string{{"7", "2", "3", "5"}, {"1.5", "-2", "0", "0.25"}, {"2", "2", "2", "2"}, {"1", "1.0", "0", "-0"}}
	for _, v := range vals {
		for _, o1 := range c06All {
			for _, o2 := range c06All {
				ts := c06Join(exprNum(v[0]), exprOp(o1), exprNum(v[1]), exprOp(o2), exprNum(v[2]))
				for i := range ts {
					ts[i].W = 1
				}
				ts[0].W = 0
				emit(c06Case{ts})
			}
		}
	}
	for _, o1 := range c06All {
		for _, o2 := range c06All {
			for _, o3 := range c06All {
				v := vals[0]
				ts := c06Join(exprNum(v[0]), exprOp(o1), exprNum(v[1]), exprOp(o2), exprNum(v[2]), exprOp(o3), exprNum(v[3]))
				for i := range ts {
					ts[i].W = 1
				}
				ts[0].W = 0
				emit(c06Case{ts})
			}
		}
	}
	// strings: every comparison on a few pairs
	for _, a := range []string{"", "a", "ab", "b", "B", "10", "9"} {
		for _, b := range []string{"", "a", "ab", "b", "B", "10", "9"} {
			for _, o := range append(append([]string{}, c06Rel...), c06Eq...) {
				emit(c06Case{c06Join(exprStr(a), exprTok{Op: o, W: 1}, exprTok{Str: &b, W: 1})})
			}
		}
	}

	// mixed comparisons: number against numeric / padded / non-numeric strings and booleans
	for _, n := range []string{"10", "2.5", "0"} {
		for _, o := range append(append([]string{}, c06Rel...), c06Eq...) {
			for _, st := range c06MixStrs {
				st := st
				emit(c06Case{c06Join(exprNum(n), exprTok{Op: o, W: 1}, exprTok{Str: &st, W: 1})})
				emit(c06Case{c06Join(exprTok{Str: &st}, exprTok{Op: o, W: 1}, exprTok{Num: n, W: 1})})
			}
			for _, b := range []bool{true, false} {
				b := b
				emit(c06Case{c06Join(exprNum(n), exprTok{Op: o, W: 1}, exprTok{Bool: &b, W: 1})})
				emit(c06Case{c06Join(exprTok{Bool: &b}, exprTok{Op: o, W: 1}, exprTok{Num: n, W: 1})})
			}
		}
	}

	r := rand.New(rand.NewSource(seed))
	g := &c06Gen{r}
	n := 1200
	if tier == "thorough" {
		n = 8000
	}
	for i := 0; i < n; i++ {
		depth := r.Intn(7) // 0..6
		var ts []exprTok
		switch k := r.Intn(20); {
		case k < 9:
			ts = g.numChain(depth)
		case k < 17:
			ts = g.boolExpr(depth)
		default:
			ts = g.wild(depth % 4)
		}
		ts = exprSpaces(r, ts, r.Intn(4))
		emit(c06Case{ts})
	}
}

func (c06) Run(raw json.RawMessage) Result {
	var c c06Case
	if err := json.Unmarshal(raw, &c); err != nil {
		die("C06: bad case: %v", err)
	}
	src := exprSource(c.Toks)
	o := exprEval(src)
	coq := coqlit.Record("c_toks", exprToksCoq(c.Toks), "c_src", coqlit.Bytes(src), "c_orc", exprOracles(c.Toks), "c_obs", o.coq)
	nops := exprCountOps(c.Toks)
	class := "ops" + fmt.Sprint(min(nops, 9)/3*3) + "+/depth" + fmt.Sprint(exprDepth(c.Toks))
	if o.Kind == 1 {
		class = "error"
	}
	return Result{Obs: o, Coq: coq, Nontrivial: nops >= 2 && o.Kind == 0, Class: class}
}

func (c06) Shrink(raw json.RawMessage) []any {
	var c c06Case
	if err := json.Unmarshal(raw, &c); err != nil {
		return nil
	}
	var out []any
	for _, s := range exprShrink(c.Toks) {
		if len(s) > 0 {
			out = append(out, c06Case{s})
		}
	}
	return out
}
