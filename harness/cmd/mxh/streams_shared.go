//go:build prop_c01 || prop_c02 || prop_all

package main

// Shared by C01 and C02: a deterministic scheduler for the real streams.Stdin.
//
// The repo's verif hook (builtins/pipes/streams/verif_hook.go) calls a callback
// immediately before every atomic action of Stdin (mutex critical section or
// poll of the context).  Here the callback parks the calling goroutine until
// the scheduler releases it, so a case = thread programs + a schedule (list of
// thread numbers) is executed on the real code one atomic action at a time,
// exactly as coq/theories/Model/Streams.v executes it.

import (
	"bytes"
	"encoding/hex"
	"fmt"
	"io"
	"runtime"
	"strings"
	"sync"
	"time"

	"github.com/lmorg/murex/builtins/pipes/streams"

	"verifharness/coqlit"
)

// strmOp is one method call of a thread program. Payloads are hex encoded so
// that NUL and invalid UTF-8 survive JSON.
type strmOp struct {
	K string `json:"k"`           // open close force write read readall writeto readfrom stats setdt getdt
	P string `json:"p,omitempty"` // hex payload (write, readfrom, setdt)
	N int    `json:"n,omitempty"` // read: slice length
}

func strmHex(s string) string { return hex.EncodeToString([]byte(s)) }

func strmUnhex(s string) string {
	b, err := hex.DecodeString(s)
	if err != nil {
		die("bad hex payload %q", s)
	}
	return string(b)
}

// strmCtlCase is a controlled run.
type strmCtlCase struct {
	Max   int        `json:"max"`
	Progs [][]strmOp `json:"progs"`
	Sched []int      `json:"sched"`
}

// ---- Coq rendering ----------------------------------------------------------

func strmOpCoq(o strmOp) string {
	switch o.K {
	case "open":
		return "OOpen"
	case "close":
		return "OClose"
	case "force":
		return "OForce"
	case "write":
		return coqlit.App("OWrite", coqlit.Bytes(strmUnhex(o.P)))
	case "read":
		return coqlit.App("ORead", fmt.Sprint(o.N))
	case "readall":
		return "OReadAll"
	case "writeto":
		return "OWriteTo"
	case "readfrom":
		return coqlit.App("OReadFrom", coqlit.Bytes(strmUnhex(o.P)))
	case "stats":
		return "OStats"
	case "setdt":
		return coqlit.App("OSetDT", coqlit.Bytes(strmUnhex(o.P)))
	case "getdt":
		return "OGetDT"
	}
	die("bad op kind %q", o.K)
	return ""
}

func strmProgsCoq(progs [][]strmOp) string {
	ps := make([]string, len(progs))
	for i, p := range progs {
		os := make([]string, len(p))
		for j, o := range p {
			os[j] = strmOpCoq(o)
		}
		ps[i] = coqlit.List(os)
	}
	return coqlit.List(ps)
}

func strmSchedCoq(s []int) string {
	e := make([]string, len(s))
	for i, t := range s {
		e[i] = coqlit.Nat(t)
	}
	return coqlit.List(e)
}

// strmEvent mirrors Coq's `event`.
type strmEvent struct {
	K string `json:"k"` // idle tau unit write read readall chunk writeto in readfrom stats dt setdt panic hang
	B string `json:"b,omitempty"`
	N uint64 `json:"n,omitempty"`
	M uint64 `json:"m,omitempty"`
	E int    `json:"e,omitempty"` // 0 nil, 1 EOF, 2 ErrClosedPipe, 9 other
}

func (e strmEvent) coq() string {
	b := coqlit.Bytes(strmUnhex(e.B))
	switch e.K {
	case "idle":
		return "EvIdle"
	case "tau":
		return "EvTau"
	case "unit":
		return "EvUnit"
	case "write":
		return coqlit.App("EvWrite", b, fmt.Sprint(e.N), fmt.Sprint(e.E))
	case "read":
		return coqlit.App("EvRead", fmt.Sprint(e.N), b, fmt.Sprint(e.E))
	case "readall":
		return coqlit.App("EvReadAll", b)
	case "chunk":
		return coqlit.App("EvChunk", b)
	case "writeto":
		return coqlit.App("EvWriteTo", fmt.Sprint(e.N))
	case "in":
		return coqlit.App("EvIn", b)
	case "readfrom":
		return coqlit.App("EvReadFrom", fmt.Sprint(e.N), fmt.Sprint(e.E))
	case "stats":
		return coqlit.App("EvStats", fmt.Sprint(e.N), fmt.Sprint(e.M))
	case "dt":
		return coqlit.App("EvDT", b)
	case "setdt":
		return coqlit.App("EvSetDT", b)
	case "panic":
		return "EvPanic"
	case "hang":
		return "EvHang"
	}
	die("bad event kind %q", e.K)
	return ""
}

type strmSnap struct {
	W    uint64 `json:"w"`
	R    uint64 `json:"r"`
	Len  int    `json:"len"`
	Deps int32  `json:"deps"`
	Canc bool   `json:"canc"`
	Max  int    `json:"max"`
	DT   string `json:"dt"` // hex
}

func (s strmSnap) coq() string {
	return coqlit.App("mkSnap", fmt.Sprint(s.W), fmt.Sprint(s.R), fmt.Sprint(s.Len), coqlit.Z(int64(s.Deps)),
		coqlit.Bool(s.Canc), fmt.Sprint(s.Max), coqlit.Bytes(strmUnhex(s.DT)))
}

type strmStep struct {
	Pt int       `json:"pt"`
	Ev strmEvent `json:"ev"`
	Sn strmSnap  `json:"sn"`
}

type strmCtlObs struct {
	Steps []strmStep `json:"steps"`
	Buf   string     `json:"buf"` // hex
	Hang  bool       `json:"hang,omitempty"`
	// Interleaved: some thread had another thread's action between two of its own
	// actions inside one call (the non-triviality rule).
	Interleaved bool `json:"interleaved"`
}

func (o strmCtlObs) coq() string {
	st := make([]string, len(o.Steps))
	for i, s := range o.Steps {
		st[i] = coqlit.App("mkOStep", fmt.Sprint(s.Pt), s.Ev.coq(), s.Sn.coq())
	}
	return coqlit.App("mkCtlObs", "["+strings.Join(st, ";\n  ")+"]", coqlit.Bytes(strmUnhex(o.Buf)))
}

// ---- the scheduler ----------------------------------------------------------

var strmPoints = map[string]int{
	"begin": 0, "open": 1, "close": 2, "force": 3, "stats": 4, "sdt": 5,
	"w.sel": 6, "w.chk": 7, "w.app": 8, "w.drop": 9,
	"r.sel": 10, "r.chk": 11, "r.take": 12,
	"ra.max": 13, "ra.sel": 14, "ra.poll": 15, "ra.take": 16,
	"rf.max": 17, "rf.sel": 18, "g.sel": 19, "g.poll": 20,
}

type strmParkMsg struct {
	tid      int
	point    string
	finished bool
}

type strmThread struct {
	id       int
	prog     []strmOp
	resume   chan struct{}
	abort    bool
	finished bool
	exited   chan struct{}
	at       string     // yield point the thread is parked at
	ev       *strmEvent // what the current release showed
	panicked bool
	inRF     bool   // inside ReadFrom
	lastIn   []byte // last chunk ReadFrom's reader handed out
	sc       *strmSched
}

type strmSched struct {
	s       *streams.Stdin
	threads []*strmThread
	cur     *strmThread
	parked  chan strmParkMsg
}

func strmErrKind(err error) int {
	switch err {
	case nil:
		return 0
	case io.EOF:
		return 1
	case io.ErrClosedPipe:
		return 2
	}
	return 9
}

func (t *strmThread) park(point string) {
	t.at = point
	t.sc.parked <- strmParkMsg{tid: t.id, point: point}
	<-t.resume
	if t.abort {
		runtime.Goexit()
	}
}

// strmRFReader is the io.Reader given to ReadFrom: bytes.Reader that remembers the last chunk.
type strmRFReader struct {
	r *bytes.Reader
	t *strmThread
}

func (r *strmRFReader) Read(p []byte) (int, error) {
	n, err := r.r.Read(p)
	r.t.lastIn = append([]byte(nil), p[:n]...)
	return n, err
}

// strmWTWriter is the io.Writer given to WriteTo: every chunk is an event.
type strmWTWriter struct{ t *strmThread }

func (w strmWTWriter) Write(p []byte) (int, error) {
	w.t.ev = &strmEvent{K: "chunk", B: hex.EncodeToString(p)}
	return len(p), nil
}

func (t *strmThread) run() {
	defer close(t.exited)
	defer func() {
		// a panic inside the code under test (not the Goexit used to stop parked threads)
		if r := recover(); r != nil {
			t.finished = true
			t.panicked = true
			t.ev = &strmEvent{K: "panic"}
			t.sc.parked <- strmParkMsg{tid: t.id, finished: true}
		}
	}()
	s := t.sc.s
	for _, o := range t.prog {
		t.park("begin")
		switch o.K {
		case "open":
			s.Open()
			t.ev = &strmEvent{K: "unit"}
		case "close":
			s.Close()
			t.ev = &strmEvent{K: "unit"}
		case "force":
			s.ForceClose()
			t.ev = &strmEvent{K: "unit"}
		case "write":
			p := []byte(strmUnhex(o.P))
			n, err := s.Write(p)
			t.ev = &strmEvent{K: "write", B: o.P, N: uint64(n), E: strmErrKind(err)}
		case "read":
			p := make([]byte, o.N)
			n, err := s.Read(p)
			t.ev = &strmEvent{K: "read", N: uint64(o.N), B: hex.EncodeToString(p[:n]), E: strmErrKind(err)}
		case "readall":
			b, err := s.ReadAll()
			if err != nil {
				t.ev = &strmEvent{K: "readall", B: hex.EncodeToString(b), E: 9}
			} else {
				t.ev = &strmEvent{K: "readall", B: hex.EncodeToString(b)}
			}
		case "writeto":
			n, err := s.WriteTo(strmWTWriter{t})
			if err != nil {
				n = -1
			}
			t.ev = &strmEvent{K: "writeto", N: uint64(n)}
		case "readfrom":
			t.inRF = true
			n, err := s.ReadFrom(&strmRFReader{bytes.NewReader([]byte(strmUnhex(o.P))), t})
			t.inRF = false
			t.ev = &strmEvent{K: "readfrom", N: uint64(n), E: strmErrKind(err)}
		case "stats":
			w, r := s.Stats()
			t.ev = &strmEvent{K: "stats", N: w, M: r}
		case "setdt":
			s.SetDataType(strmUnhex(o.P))
			t.ev = &strmEvent{K: "setdt", B: o.P}
		case "getdt":
			dt := s.GetDataType()
			t.ev = &strmEvent{K: "dt", B: strmHex(dt)}
		default:
			die("bad op kind %q", o.K)
		}
	}
	t.finished = true
	t.sc.parked <- strmParkMsg{tid: t.id, finished: true}
}

func strmSnapOf(s *streams.Stdin) (strmSnap, []byte) {
	ch := make(chan streams.VerifState, 1)
	go func() { ch <- s.VerifSnapshot() }()
	var v streams.VerifState
	select {
	case v = <-ch:
	case <-time.After(3 * time.Second):
		return strmSnap{Len: -1}, nil // mutex left locked by a panic
	}
	return strmSnap{W: v.Written, R: v.Read, Len: len(v.Buffer), Deps: v.Dependents, Canc: v.Cancelled,
		Max: v.Max, DT: strmHex(v.DataType)}, v.Buffer
}

var strmMu sync.Mutex

// deadlines of a controlled case: one release, and the whole case (generous: a
// release normally takes microseconds)
const (
	strmStepDeadline = 10 * time.Second
	strmCaseDeadline = 30 * time.Second
)

// strmRunCtl executes a controlled case on a fresh streams.Stdin.
func strmRunCtl(c strmCtlCase) strmCtlObs {
	strmMu.Lock()
	defer strmMu.Unlock()
	oldMax := streams.DefaultMaxBufferSize
	streams.DefaultMaxBufferSize = c.Max
	s := streams.NewStdin()
	streams.DefaultMaxBufferSize = oldMax

	sc := &strmSched{s: s, parked: make(chan strmParkMsg)}
	streams.VerifSetYield(func(x *streams.Stdin, point string) {
		if x != s || sc.cur == nil {
			return
		}
		sc.cur.park(point)
	})
	defer streams.VerifSetYield(nil)

	var obs strmCtlObs
	wait := func(t *strmThread) bool {
		select {
		case m := <-sc.parked:
			if m.tid != t.id {
				die("scheduler: message from thread %d while %d runs", m.tid, t.id)
			}
			return true
		case <-time.After(strmStepDeadline):
			return false
		}
	}
	// hang: the released thread did not reach its next yield point (a loop of the
	// code under test without a yield point, or a lock that is never released), or
	// the whole case exceeded its deadline. Recorded as an explicit EvHang step that
	// both agree and spec_ok reject; the goroutines are abandoned (the context is
	// cancelled so that every loop of Stdin that polls it ends).
	start := time.Now()
	hang := func(pt int) strmCtlObs {
		st := strmStep{Pt: pt, Ev: strmEvent{K: "hang"}}
		s.ForceClose()
		st.Sn, _ = strmSnapOf(s)
		if st.Sn.Len < 0 {
			st.Sn.Len = 0
		}
		obs.Steps = append(obs.Steps, st)
		obs.Hang = true
		return obs
	}
	for i, p := range c.Progs {
		t := &strmThread{id: i, prog: p, resume: make(chan struct{}), exited: make(chan struct{}), sc: sc}
		sc.threads = append(sc.threads, t)
		sc.cur = t
		go t.run()
		if !wait(t) {
			return hang(0)
		}
		sc.cur = nil
	}
	last := -1 // thread of the previous non-idle step
	for _, i := range c.Sched {
		var st strmStep
		if i < 0 || i >= len(sc.threads) || sc.threads[i].finished {
			st.Ev = strmEvent{K: "idle"}
		} else {
			t := sc.threads[i]
			pt := t.at
			st.Pt = strmPoints[pt]
			if time.Since(start) > strmCaseDeadline {
				return hang(st.Pt)
			}
			if pt != "begin" && last >= 0 && last != i {
				obs.Interleaved = true
			}
			last = i
			t.ev = nil
			sc.cur = t
			t.resume <- struct{}{}
			ok := wait(t)
			sc.cur = nil
			if !ok {
				return hang(st.Pt)
			}
			switch {
			case t.ev != nil:
				st.Ev = *t.ev
			case pt == "w.app" && t.inRF:
				st.Ev = strmEvent{K: "in", B: hex.EncodeToString(t.lastIn)}
			default:
				st.Ev = strmEvent{K: "tau"}
			}
		}
		st.Sn, _ = strmSnapOf(s)
		if st.Sn.Len < 0 {
			st.Sn.Len = 0
			obs.Steps = append(obs.Steps, st)
			obs.Hang = true
			break
		}
		obs.Steps = append(obs.Steps, st)
	}
	if obs.Hang {
		return obs // state unusable: leave the remaining goroutines parked
	}
	_, buf := strmSnapOf(s)
	obs.Buf = hex.EncodeToString(buf)
	// terminate the threads that are still parked
	for _, t := range sc.threads {
		if !t.finished {
			t.abort = true
			t.resume <- struct{}{}
		}
		<-t.exited
	}
	return obs
}

// strmShrinkCtl proposes smaller controlled cases.
func strmShrinkCtl(c strmCtlCase) []strmCtlCase {
	var out []strmCtlCase
	cp := func() strmCtlCase {
		n := strmCtlCase{Max: c.Max, Sched: append([]int(nil), c.Sched...)}
		for _, p := range c.Progs {
			n.Progs = append(n.Progs, append([]strmOp(nil), p...))
		}
		return n
	}
	// shorter schedule: cut the tail, then drop single entries
	if len(c.Sched) > 1 {
		n := cp()
		n.Sched = n.Sched[:len(n.Sched)/2]
		out = append(out, n)
		n = cp()
		n.Sched = n.Sched[:len(n.Sched)-1]
		out = append(out, n)
	}
	// drop one op
	for i := range c.Progs {
		for j := range c.Progs[i] {
			n := cp()
			n.Progs[i] = append(n.Progs[i][:j], n.Progs[i][j+1:]...)
			out = append(out, n)
		}
	}
	// drop one schedule entry
	for i := len(c.Sched) - 1; i >= 0 && len(out) < 180; i-- {
		n := cp()
		n.Sched = append(n.Sched[:i], n.Sched[i+1:]...)
		out = append(out, n)
	}
	// shorten payloads
	for i := range c.Progs {
		for j, o := range c.Progs[i] {
			if len(o.P) > 2 && len(out) < 200 {
				n := cp()
				n.Progs[i][j].P = o.P[:2]
				out = append(out, n)
			}
		}
	}
	return out
}
