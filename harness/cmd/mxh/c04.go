//go:build prop_c04 || prop_all

package main

// C04 — `&&`, `||` and `;` behave as documented in normal mode.
// Chains of commands with chosen exit numbers / output run through
// Fork.Execute (runModeNormal); stdout and exit number are compared with the
// Coq model and with the reference interpreter of the rule.

import (
	"encoding/json"
	"math/rand"

	"verifharness/coqlit"
)

type c04 struct{}

func init() { register("C04", c04{}) }

// outcome classes of single commands and of pipelines (one letter per stage):
// o = exit 0, x = exit 1, y = exit 7
var c04Singles = []string{"o", "x", "y"}
var c04Units = []string{"o", "x", "oo", "ox", "xo", "yo"}

func (c04) Gen(seed int64, tier string, emit func(any)) {
	rng := rand.New(rand.NewSource(seed))
	e := func(c rmCase) { emit(c) }
	// exhaustive: every chain of 1..4 (quick) / 1..5 (thorough) single commands
	// over {ok, fail 1, fail 7} x {; && ||}
	maxSingles, maxUnits := 4, 3
	if tier == "thorough" {
		maxSingles, maxUnits = 5, 4
	}
	for n := 1; n <= maxSingles; n++ {
		rmExhaustive(rng, "normal", n, c04Singles, rmJoiners, e)
	}
	// exhaustive: every chain of 1..3 (4) units where a unit may be a pipeline
	for n := 1; n <= maxUnits; n++ {
		rmExhaustive(rng, "normal", n, c04Units, rmJoiners, e)
	}
	// random longer chains, all derived from the seed
	nrand, maxLen := 700, 9
	if tier == "thorough" {
		nrand, maxLen = 12000, 12
	}
	for i := 0; i < nrand; i++ {
		n := 4 + rng.Intn(maxLen-3)
		e(rmRandom(rng, "normal", n, 3))
	}
}

func (c04) Run(raw json.RawMessage) Result {
	var c rmCase
	if err := json.Unmarshal(raw, &c); err != nil {
		die("C04: bad case: %v", err)
	}
	if c.Mode == "" {
		c.Mode = "normal"
	}
	o, obs, flags := rmRun(c)
	coq := coqlit.Record("k_prog", rmProgCoq(c), "k_flags", flags, "k_obs", obs)
	return Result{Obs: o, Coq: coq, Nontrivial: rmNontrivial(c), Class: rmClass(c)}
}

func (c04) Shrink(raw json.RawMessage) []any {
	var c rmCase
	if err := json.Unmarshal(raw, &c); err != nil {
		return nil
	}
	var out []any
	for _, d := range rmShrink(c) {
		out = append(out, d)
	}
	return out
}
