//go:build prop_c20 || prop_all

package main

// C20 — Parsing any text terminates without panicking.
// Two kinds of cases:
//   tok: utils/parser.Parse(runes, pos)                      (tokenizer / highlighter)
//   blk: lang/expressions.ParseBlock(runes) together with the result of the real
//        preParser / parseStatementWithKnownCommand at every position (the oracle
//        tables of Model/BlockParse.v), obtained through the verif hook
//        lang/expressions/verif_c20.go.
// Everything that can hang or crash runs in a long-lived child process
// (`mxh child C20`): every call is made in its own goroutine with a timeout; a
// child that saw a hang finishes the case and exits (taking the spinning
// goroutines with it), the worker starts a new one.

import (
	"bufio"
	"encoding/json"
	"fmt"
	"io"
	"math/rand"
	"os"
	"os/exec"
	"strings"
	"time"

	"github.com/lmorg/murex/lang/expressions"
	"github.com/lmorg/murex/utils/parser"

	"verifharness/coqlit"
)

type c20 struct{}

func init() { register("C20", c20{}) }

type c20Case struct {
	K   string  `json:"k"` // tok | blk
	R   []int32 `json:"r"`
	Pos int     `json:"pos"`
	Txt string  `json:"txt,omitempty"`
}

func c20Mk(k string, s []rune, pos int) c20Case {
	t := tokMk(s, pos)
	return c20Case{K: k, R: t.R, Pos: pos, Txt: t.Txt}
}

func (c c20Case) runes() []rune { return tokCase{R: c.R}.runes() }

// c20Call: outcome of one guarded call. Kind: 0 ok, 1 error, 2 panic, 3 hang.
type c20Call struct {
	Kind int    `json:"kind"`
	N    int    `json:"n"`
	Msg  string `json:"msg,omitempty"`
}

type c20Obs struct {
	Kind  int       `json:"kind"`
	N     int       `json:"n"`             // blk: number of functions
	Hl    string    `json:"hl,omitempty"`  // tok: highlighted string
	Msg   string    `json:"msg,omitempty"` // panic text (never compared)
	Pre   []c20Call `json:"pre,omitempty"`
	Known []c20Call `json:"known,omitempty"`
	Child string    `json:"child,omitempty"` // "died" when the child process itself was lost
}

// c20Guard runs f in a goroutine; f returns (n, err).
func c20Guard(timeout time.Duration, f func() (int, error)) c20Call {
	ch := make(chan c20Call, 1)
	go func() {
		defer func() {
			if r := recover(); r != nil {
				ch <- c20Call{Kind: 2, Msg: fmt.Sprint(r)}
			}
		}()
		n, err := f()
		if err != nil {
			ch <- c20Call{Kind: 1}
			return
		}
		ch <- c20Call{Kind: 0, N: n}
	}()
	select {
	case r := <-ch:
		return r
	case <-time.After(timeout):
		return c20Call{Kind: 3}
	}
}

const c20Unknown = -1

func c20Observe(c c20Case) (o c20Obs, sawHang bool) {
	src := c.runes()
	long, short := 3*time.Second, 300*time.Millisecond
	to := func() time.Duration {
		if sawHang {
			return short
		}
		return long
	}
	note := func(r c20Call) c20Call {
		if r.Kind == 3 {
			sawHang = true
		}
		return r
	}
	if c.K == "tok" {
		var hl string
		r := note(c20Guard(to(), func() (int, error) {
			_, h := parser.Parse(append([]rune(nil), src...), c.Pos)
			hl = h
			return 0, nil
		}))
		o.Kind, o.Msg = r.Kind, r.Msg
		if r.Kind == 0 {
			o.Hl = hl
		}
		return
	}
	r := note(c20Guard(to(), func() (int, error) {
		fns, err := expressions.ParseBlock(append([]rune(nil), src...))
		if err != nil {
			return 0, err
		}
		return len(*fns), nil
	}))
	o.Kind, o.N, o.Msg = r.Kind, r.N, r.Msg
	o.Pre = make([]c20Call, len(src))
	o.Known = make([]c20Call, len(src))
	for p := range src {
		o.Pre[p] = c20Call{Kind: c20Unknown}
		o.Known[p] = c20Call{Kind: c20Unknown}
		switch src[p] {
		case ' ', '\t', '\r', '\n':
			continue
		}
		p := p
		o.Pre[p] = note(c20Guard(to(), func() (int, error) {
			return expressions.VerifPreParser(append([]rune(nil), src[p:]...), p-1)
		}))
		if (src[p] == '>' || src[p] == '~') && p+1 < len(src) && src[p+1] == '>' {
			o.Known[p] = note(c20Guard(to(), func() (int, error) {
				return expressions.VerifKnownCommand(append([]rune(nil), src...), p, '>', '>')
			}))
		}
	}
	return
}

// Child: read cases, answer each with one JSON line; leave after a hang.
func (c20) Child(args []string) {
	initMurex()
	in := bufio.NewReaderSize(os.Stdin, 1<<20)
	out := bufio.NewWriter(os.Stdout)
	enc := json.NewEncoder(out)
	enc.SetEscapeHTML(false)
	for {
		line, err := in.ReadBytes('\n')
		if len(line) > 1 {
			var c c20Case
			if json.Unmarshal(line, &c) != nil {
				os.Exit(3)
			}
			o, hang := c20Observe(c)
			enc.Encode(o)
			out.Flush()
			if hang {
				os.Exit(0)
			}
		}
		if err != nil {
			return
		}
	}
}

// ---- worker side: the persistent child ----

type c20Proc struct {
	cmd   *exec.Cmd
	stdin io.WriteCloser
	lines chan []byte
}

var c20Child *c20Proc

func c20Start() *c20Proc {
	cmd := exec.Command(os.Args[0], "child", "C20")
	cmd.Stderr = nil
	stdin, err := cmd.StdinPipe()
	if err != nil {
		die("C20: %v", err)
	}
	stdout, err := cmd.StdoutPipe()
	if err != nil {
		die("C20: %v", err)
	}
	if err := cmd.Start(); err != nil {
		die("C20: cannot start child: %v", err)
	}
	p := &c20Proc{cmd: cmd, stdin: stdin, lines: make(chan []byte, 4)}
	go func() {
		rd := bufio.NewReaderSize(stdout, 1<<20)
		for {
			l, err := rd.ReadBytes('\n')
			if len(l) > 1 {
				p.lines <- l
			}
			if err != nil {
				close(p.lines)
				return
			}
		}
	}()
	return p
}

func (p *c20Proc) kill() {
	p.stdin.Close()
	p.cmd.Process.Kill()
	go p.cmd.Wait()
}

func c20Ask(raw []byte) c20Obs {
	for attempt := 0; attempt < 2; attempt++ {
		if c20Child == nil {
			c20Child = c20Start()
		}
		p := c20Child
		if _, err := p.stdin.Write(append(append([]byte(nil), raw...), '\n')); err != nil {
			p.kill()
			c20Child = nil
			continue // the child had left after a hang: ask a fresh one
		}
		select {
		case l, ok := <-p.lines:
			if !ok {
				p.kill()
				c20Child = nil
				if attempt == 0 {
					continue
				}
				return c20Obs{Kind: 2, Child: "died"}
			}
			var o c20Obs
			if json.Unmarshal(l, &o) != nil {
				die("C20: bad child answer %q", l)
			}
			return o
		case <-time.After(120 * time.Second):
			p.kill()
			c20Child = nil
			return c20Obs{Kind: 3, Child: "died"}
		}
	}
	return c20Obs{Kind: 2, Child: "died"}
}

func c20Ores(r c20Call) string {
	switch r.Kind {
	case 0:
		return coqlit.App("OOk", coqlit.Z(int64(r.N)))
	case 1:
		return "OErr"
	case 2:
		return "OPanic"
	case 3:
		return "OHang"
	}
	return "OUnknown"
}

func (c20) Run(raw json.RawMessage) Result {
	var c c20Case
	if err := json.Unmarshal(raw, &c); err != nil {
		die("C20: bad case: %v", err)
	}
	o := c20Ask(raw)
	src := c.runes()
	var coq string
	if c.K == "tok" {
		coq = coqlit.App("TokCase", tokRunes(src), coqlit.Z(int64(c.Pos)), coqlit.N(uint64(o.Kind)), tokRunes([]rune(o.Hl)))
	} else {
		pre := make([]string, len(src))
		known := make([]string, len(src))
		for i := range src {
			if i < len(o.Pre) {
				pre[i] = c20Ores(o.Pre[i])
				known[i] = c20Ores(o.Known[i])
			} else {
				pre[i], known[i] = "OUnknown", "OUnknown"
			}
		}
		orc := coqlit.Record("o_pre", coqlit.List(pre), "o_known", coqlit.List(known))
		coq = coqlit.App("BlkCase", tokRunes(src), orc, coqlit.N(uint64(o.Kind)), coqlit.N(uint64(o.N)))
	}
	small := c20Obs{Kind: o.Kind, N: o.N, Msg: o.Msg, Child: o.Child}
	cls := c.K + "/" + tokClass(src)
	return Result{Obs: small, Coq: coq, Nontrivial: tokClass(src) != "plain" && tokClass(src) != "empty", Class: cls}
}

// ---- generation ----

// openers left unclosed after a space, and flow tokens at the end: the shapes
// that make a sub-parser return early
var c20Tails = []string{
	"(", " (", "((", " ( (", "(;", "(|", "(#", "(?", "(->", "(=>", "(&&", "(\n", "()", "(1", "(1;2)",
	"'", " '", "\"", " \"", "`", "{", " {", "{ {", "[", " [", "[[", "%(", "%[", "%{", "%[(", "%{a:(", "%[ (", "%{(",
	"$(", "${", "@{", "$", "@", "$a[", "$a[(", "$a[[", "$.", "<", "<in", "\\", "-", "&", "|", "||", "&&", "->", "=>", ">>", "~>", "?", "=", "~",
	"/#", "/# c", "#", "!", "!(", "a(", "a((", "a(b", "f(1,", "1+", "1+(", "-(", "!a(", ":", "::", ";", "\n",
}

var c20Heads = []string{
	"", "out", "out ", "out a ", "a = ", "a=", "$a = ", "1 + ", "out a | ", "out a -> ", "out a; ", "if { ", "out 'a' ", "echo ${", "try {",
	"out a &", "out a & ", "out a -", "out a - ", "out a &\n", "1 &", "1 -", "1 - ", "a -x & ", "out # c\n", "out /# c #/ ", "%[1] ", "'a' ", "( 1 ) ",
}

func (c20) Gen(seed int64, tier string, emit func(any)) {
	thorough := tier == "thorough"
	blk := func(s []rune) { emit(c20Mk("blk", s, 0)) }
	tok := func(s []rune, pos int) { emit(c20Mk("tok", s, pos)) }
	// the repo's own fuzz corpora (lang/testdata/fuzz/FuzzParseBlock, shell/testdata/fuzz/FuzzHint,
	// utils/parser/parser_fuzz_test.go seeds) and the coordinator's witnesses
	for _, w := range []string{"->->", "0 ~->", "[", "^[0]", "", "out: hello world", "bg { err: abc 123 }", "bob -> ? | =>",
		"out (", "pt (", "!export (", "trypipe ] 1 --x (", "out %[(", "%{a:(", "out (;", "a = ("} {
		blk([]rune(w))
		tok([]rune(w), 0)
		tok([]rune(w), len(w))
	}
	tok([]rune("^[0]"), 93)
	// every head x every tail
	for _, h := range c20Heads {
		for _, t := range c20Tails {
			if thorough || (len(h)+len(t))%3 == 0 || h == "out " || h == "" {
				blk([]rune(h + t))
			}
		}
	}
	// exhaustive short strings
	if thorough {
		tokExhaustive(tokAlphabet, 2, blk)
		tokExhaustive([]rune("a (-&>|;#\n"), 4, blk)
	} else {
		tokExhaustive(tokAlphabet, 1, blk)
		tokExhaustive([]rune("a (-&>|;#\n"), 3, blk)
	}
	tokExhaustive(tokAlphabet, 2, func(s []rune) {
		tok(s, 0)
		if len(s) > 0 {
			tok(s, 1)
		}
	})
	rng := rand.New(rand.NewSource(seed))
	nb, nt := 700, 500
	if thorough {
		nb, nt = 9000, 6000
	}
	for i := 0; i < nb; i++ {
		var s []rune
		switch i % 4 {
		case 0:
			s = tokRandAlphabet(rng, 20)
		case 1:
			s = []rune(string(tokRandFragments(rng, 8)) + c20Tails[rng.Intn(len(c20Tails))])
		case 2:
			s = tokRandFragments(rng, 10)
		default:
			s = tokRandHostile(rng, 12)
		}
		blk(s)
	}
	for i := 0; i < nt; i++ {
		var s []rune
		switch i % 3 {
		case 0:
			s = tokRandAlphabet(rng, 30)
		case 1:
			s = tokRandFragments(rng, 12)
		default:
			s = tokRandHostile(rng, 20)
		}
		pos := 0
		switch rng.Intn(4) {
		case 1:
			pos = len(s)
		case 2:
			pos = rng.Intn(len(s) + 2)
		case 3:
			pos = len(string(s)) // the repo's fuzz target passes the byte length
		}
		tok(s, pos)
	}
}

func (c20) Shrink(raw json.RawMessage) []any {
	var c c20Case
	if json.Unmarshal(raw, &c) != nil {
		return nil
	}
	s := c.runes()
	var out []any
	if len(s) > 3 {
		out = append(out, c20Mk(c.K, s[len(s)/2:], 0), c20Mk(c.K, s[:len(s)/2], 0))
	}
	for i := range s {
		t := append(append([]rune(nil), s[:i]...), s[i+1:]...)
		pos := c.Pos
		if pos > len(t) {
			pos = len(t)
		}
		out = append(out, c20Mk(c.K, t, pos))
	}
	_ = strings.TrimSpace
	return out
}
