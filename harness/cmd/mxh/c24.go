//go:build prop_c24 || prop_all

package main

// C24 — Flag parsing follows the declared flag table.
// A case is a flag table (+ the three switches) and an argument list. The
// harness calls parameters.ParseFlags directly, runs the same arguments
// through the `args` builtin inside a murex function, and measures
// types.ConvertGoType on every (type, argument) pair of the case (the
// conversion is a parameter of the Coq model). Tables with an alias cycle run
// in a child process so that a hang is an observation.

import (
	"bytes"
	"encoding/json"
	"fmt"
	"math/rand"
	"os"
	"os/exec"
	"sort"
	"strconv"
	"strings"
	"time"

	"github.com/lmorg/murex/lang/parameters"
	"github.com/lmorg/murex/lang/types"
	mxjson "github.com/lmorg/murex/utils/json"

	"verifharness/coqlit"
)

type c24Case struct {
	Src    string      `json:"src"`
	Allow  bool        `json:"allow"`
	Ignore bool        `json:"ignore"`
	Strict bool        `json:"strict"`
	Table  [][2]string `json:"table"` // sorted by flag, flags distinct
	Args   []string    `json:"args"`
}

type c24Val struct {
	Kind int    `json:"k"` // direct: 0 string 1 int 2 float64 3 bool; args: 0 string 1 number 2 bool
	Text string `json:"t"`
}

type c24Flag struct {
	Name string `json:"n"`
	V    c24Val `json:"v"`
}

type c24Oracle struct {
	Ty  string  `json:"ty"`
	Raw string  `json:"raw"`
	V   *c24Val `json:"v"` // nil = ConvertGoType returned an error
}

type c24Obs struct {
	Oracle []c24Oracle `json:"oracle"`
	Pf     string      `json:"pf"` // ok|err|panic|hang
	Flags  []c24Flag   `json:"flags,omitempty"`
	Add    []string    `json:"add,omitempty"`
	Ab     string      `json:"ab"` // ok|failed
	AbFlag []c24Flag   `json:"abflags,omitempty"`
	AbAdd  []string    `json:"abadd,omitempty"`
	AbErr  bool        `json:"aberr,omitempty"`
	AbExit int         `json:"abexit,omitempty"`
	Raw    string      `json:"raw,omitempty"`
}

type c24 struct{}

var c24Rechecks int

func init() { register("C24", c24{}) }

// ---------------------------------------------------------------- generation

var c24Tables = [][][2]string{
	{{"--bool", "bool"}, {"--int", "int"}, {"--str", "str"}, {"-b", "--bool"}, {"-s", "--str"}},
	{{"--num", "num"}, {"-a", "-b"}, {"-b", "-c"}, {"-c", "--num"}, {"-x", "bool"}},
	{{"--", "str"}, {"-d", "--"}, {"-u", "--undeclared"}, {"-v", "str"}},
	{{"-i", "int"}},
}

var c24Tokens = [][]string{
	{"--str", "-s", "-b", "--int", "7", "--", "-z", "x"},
	{"-a", "-c", "--num", "1.5", "-x", "--", "-5", "abc"},
	{"-d", "-u", "-v", "--", "w", "--undeclared", "-d"},
	{"-i", "42", "-7", "3.7", "--", "x", "-i"},
}

func c24Lists(tokens []string, maxLen int, f func([]string)) {
	var rec func(prefix []string)
	rec = func(prefix []string) {
		f(append([]string(nil), prefix...))
		if len(prefix) == maxLen {
			return
		}
		for _, t := range tokens {
			rec(append(prefix, t))
		}
	}
	rec(nil)
}

var c24Names = []string{"-a", "-b", "-c", "-d", "--str", "--int", "--num", "--bool", "--x", "--y", "-", "--"}
var c24Types = []string{"str", "int", "num", "bool", "float", "str", "int", "bool", "json"}
var c24Values = []string{"hello", "42", "-5", "3.7", "1e3", "abc", "true", "0", "-", " 7 ", "x y", "+1", "007", "-0", "0x10", "1_000", "--zz", "-z", "", "12345678"}

func c24Random(r *rand.Rand, emit func(any)) {
	n := 1 + r.Intn(6)
	tbl := map[string]string{}
	for len(tbl) < n {
		k := c24Names[r.Intn(len(c24Names))]
		if r.Intn(100) < 35 && len(tbl) > 0 {
			// alias: mostly to a declared flag, sometimes undeclared, rarely itself or a back edge (loop)
			var target string
			switch x := r.Intn(100); {
			case x < 75:
				keys := c24Keys(tbl)
				target = keys[r.Intn(len(keys))]
			case x < 90:
				target = c24Names[r.Intn(len(c24Names))]
			default:
				target = "--undeclared"
			}
			tbl[k] = target
		} else {
			tbl[k] = c24Types[r.Intn(len(c24Types))]
		}
	}
	keys := c24Keys(tbl)
	c := c24Case{Src: "rand", Allow: r.Intn(3) > 0, Ignore: r.Intn(3) == 0, Strict: r.Intn(4) == 0}
	for _, k := range keys {
		c.Table = append(c.Table, [2]string{k, tbl[k]})
	}
	m := r.Intn(7)
	for i := 0; i < m; i++ {
		switch x := r.Intn(100); {
		case x < 45:
			c.Args = append(c.Args, keys[r.Intn(len(keys))])
		case x < 55:
			c.Args = append(c.Args, c24Names[r.Intn(len(c24Names))])
		case x < 62:
			c.Args = append(c.Args, "--")
		default:
			c.Args = append(c.Args, c24Values[r.Intn(len(c24Values))])
		}
	}
	emit(c)
}

func c24Keys(m map[string]string) []string {
	k := make([]string, 0, len(m))
	for s := range m {
		k = append(k, s)
	}
	sort.Strings(k)
	return k
}

func (c24) Gen(seed int64, tier string, emit func(any)) {
	// design-phase witnesses first
	emit(c24Case{Src: "corpus", Table: [][2]string{{"--x", "str"}}, Args: []string{"--y"}})                                     // F24a
	emit(c24Case{Src: "corpus", Table: [][2]string{{"-a", "-a"}}, Args: []string{"-a"}})                                        // F24b
	emit(c24Case{Src: "corpus", Table: [][2]string{{"-a", "-b"}, {"-b", "-a"}, {"-c", "bool"}}, Args: []string{"-c", "-b"}})  // F24b, 2-cycle
	emit(c24Case{Src: "corpus", Allow: true, Table: [][2]string{{"-a", "-b"}, {"-b", "-c"}, {"-c", "str"}}, Args: []string{"-a", "v", "rest"}}) // longest legal chain
	nrand := 900
	if tier == "thorough" {
		nrand = 6000
	}
	for ti, tbl := range c24Tables {
		maxLen := 2
		if tier == "thorough" && ti < 2 {
			maxLen = 3
		}
		for sw := 0; sw < 8; sw++ {
			c24Lists(c24Tokens[ti], maxLen, func(args []string) {
				emit(c24Case{Src: "exh", Allow: sw&1 != 0, Ignore: sw&2 != 0, Strict: sw&4 != 0, Table: tbl, Args: args})
			})
		}
	}
	// long argument lists that reuse alias flags: the total number of alias hops in the list
	// exceeds the number of table entries (the loop guard must be per argument, not per list)
	for _, tbl := range [][][2]string{
		{{"--bool", "bool"}, {"-b", "--bool"}},
		{{"--verbose", "bool"}, {"-v", "--verbose"}, {"--count", "int"}},
		{{"-a", "-b"}, {"-b", "-c"}, {"-c", "bool"}},
		{{"--str", "str"}, {"-s", "--str"}},
	} {
		for reps := len(tbl); reps <= len(tbl)+4; reps++ {
			var args []string
			for k := 0; k < reps; k++ {
				args = append(args, tbl[1][0])
				if tbl[0][1] == "str" {
					args = append(args, fmt.Sprintf("v%d", k))
				}
			}
			emit(c24Case{Src: "alias-repeat", Table: tbl, Args: args})
			emit(c24Case{Src: "alias-repeat", Allow: true, Table: tbl, Args: append(append([]string{}, args...), "rest")})
		}
	}
	r := rand.New(rand.NewSource(seed))
	for i := 0; i < nrand; i++ {
		c24Random(r, emit)
	}
}

// ---------------------------------------------------------------- observation

func c24HasCycle(tbl [][2]string) bool {
	m := map[string]string{}
	for _, kv := range tbl {
		m[kv[0]] = kv[1]
	}
	for k := range m {
		p := k
		for hops := 0; strings.HasPrefix(m[p], "-"); hops++ {
			if hops > len(m) {
				return true
			}
			p = m[p]
		}
	}
	return false
}

func c24GoVal(v any) c24Val {
	switch t := v.(type) {
	case string:
		return c24Val{0, t}
	case int:
		return c24Val{1, strconv.Itoa(t)}
	case float64:
		b, err := mxjson.Marshal(t, false)
		if err != nil {
			return c24Val{2, "?" + err.Error()}
		}
		return c24Val{2, string(b)}
	case bool:
		return c24Val{3, strconv.FormatBool(t)}
	default:
		return c24Val{9, fmt.Sprintf("%T", v)}
	}
}

func c24Quote(s string) string { return "'" + s + "'" }

func c24Observe(c c24Case, slow bool) c24Obs {
	var o c24Obs
	pfTimeout, abTimeout := 3*time.Second, 4*time.Second
	if slow {
		pfTimeout, abTimeout = 15*time.Second, 25*time.Second
	}
	flagMap := map[string]string{}
	for _, kv := range c.Table {
		flagMap[kv[0]] = kv[1]
	}
	// 1. the conversion oracle
	tys := map[string]bool{}
	raws := map[string]bool{}
	for _, kv := range c.Table {
		if strings.HasPrefix(kv[1], "-") {
			raws[kv[1]] = true
		} else if kv[1] != "" {
			tys[kv[1]] = true
		}
	}
	for _, a := range c.Args {
		raws[a] = true
	}
	tyl, rawl := []string{}, []string{}
	for t := range tys {
		tyl = append(tyl, t)
	}
	for r := range raws {
		rawl = append(rawl, r)
	}
	sort.Strings(tyl)
	sort.Strings(rawl)
	for _, t := range tyl {
		for _, r := range rawl {
			v, err := types.ConvertGoType(r, t)
			e := c24Oracle{Ty: t, Raw: r}
			if err == nil {
				gv := c24GoVal(v)
				e.V = &gv
			}
			o.Oracle = append(o.Oracle, e)
		}
	}
	// 2. ParseFlags called directly
	type pfRes struct {
		kind  string
		flags []c24Flag
		add   []string
	}
	ch := make(chan pfRes, 1)
	go func() {
		defer func() {
			if r := recover(); r != nil {
				ch <- pfRes{kind: "panic"}
			}
		}()
		fm := map[string]string{}
		for k, v := range flagMap {
			fm[k] = v
		}
		args := &parameters.Arguments{AllowAdditional: c.Allow, IgnoreInvalidFlags: c.Ignore, StrictFlagPlacement: c.Strict, Flags: fm}
		f, add, err := parameters.ParseFlags(append([]string(nil), c.Args...), args)
		if err != nil {
			ch <- pfRes{kind: "err"}
			return
		}
		m := f.GetMap()
		var fl []c24Flag
		for k, v := range m {
			fl = append(fl, c24Flag{k, c24GoVal(v)})
		}
		sort.Slice(fl, func(i, j int) bool { return fl[i].Name < fl[j].Name })
		ch <- pfRes{"ok", fl, add}
	}()
	select {
	case r := <-ch:
		o.Pf, o.Flags, o.Add = r.kind, r.flags, r.add
	case <-time.After(pfTimeout):
		o.Pf = "hang"
	}
	// 3. through `args` inside a function
	spec, _ := json.Marshal(parameters.Arguments{AllowAdditional: c.Allow, IgnoreInvalidFlags: c.Ignore, StrictFlagPlacement: c.Strict, Flags: flagMap})
	var q []string
	for _, a := range c.Args {
		q = append(q, c24Quote(a))
	}
	block := "function c24f {\n args c24v " + c24Quote(string(spec)) + "\n exitnum -> set c24e\n out \"$c24e|$c24v\"\n}\nc24f " + strings.Join(q, " ") + "\n"
	o.Ab = "failed"
	if o.Pf == "hang" {
		return o // ParseFlags loops for ever: do not start another spinning goroutine
	}
	r := RunMurex(block, abTimeout)
	o.Raw = r.Stdout
	if r.Timeout {
		return o
	}
	i := strings.Index(r.Stdout, "|")
	if i < 0 {
		return o
	}
	exit, err := strconv.Atoi(strings.TrimSpace(r.Stdout[:i]))
	if err != nil {
		return o
	}
	var j struct {
		Self       string
		Flags      map[string]any
		Additional []string
		Error      string
	}
	dec := json.NewDecoder(strings.NewReader(r.Stdout[i+1:]))
	dec.UseNumber()
	if err := dec.Decode(&j); err != nil {
		return o
	}
	o.Ab = "ok"
	o.AbExit = exit
	o.AbErr = j.Error != ""
	o.AbAdd = j.Additional
	for k, v := range j.Flags {
		var cv c24Val
		switch t := v.(type) {
		case string:
			cv = c24Val{0, t}
		case json.Number:
			cv = c24Val{1, t.String()}
		case bool:
			cv = c24Val{2, strconv.FormatBool(t)}
		default:
			cv = c24Val{9, fmt.Sprintf("%T", v)}
		}
		o.AbFlag = append(o.AbFlag, c24Flag{k, cv})
	}
	sort.Slice(o.AbFlag, func(a, b int) bool { return o.AbFlag[a].Name < o.AbFlag[b].Name })
	o.Raw = ""
	return o
}

func (c24) Child(args []string) {
	var c c24Case
	if err := json.NewDecoder(os.Stdin).Decode(&c); err != nil {
		die("C24 child: %v", err)
	}
	o := c24Observe(c, len(args) > 0 && args[0] == "slow")
	b, _ := json.Marshal(o)
	os.Stdout.Write(b)
	os.Stdout.Write([]byte("\n"))
	os.Exit(0)
}

func c24ViaChild(raw json.RawMessage, slow bool) c24Obs {
	cmd := exec.Command(os.Args[0], "child", "C24")
	limit := 25 * time.Second
	if slow {
		cmd = exec.Command(os.Args[0], "child", "C24", "slow")
		limit = 90 * time.Second
	}
	cmd.Stdin = bytes.NewReader(raw)
	var out bytes.Buffer
	cmd.Stdout = &out
	if err := cmd.Start(); err != nil {
		die("C24: cannot start child: %v", err)
	}
	done := make(chan error, 1)
	go func() { done <- cmd.Wait() }()
	select {
	case <-done:
	case <-time.After(limit):
		cmd.Process.Kill()
		<-done
	}
	var o c24Obs
	for _, l := range strings.Split(out.String(), "\n") {
		if strings.HasPrefix(l, "{\"oracle\"") || strings.HasPrefix(l, "{") {
			if json.Unmarshal([]byte(l), &o) == nil && o.Pf != "" {
				return o
			}
		}
	}
	return c24Obs{Pf: "hang", Ab: "failed"}
}

func c24CoqVal(v c24Val) string {
	return coqlit.Record("fv_kind", coqlit.N(uint64(v.Kind)), "fv_text", coqlit.Bytes(v.Text))
}

func c24CoqFlags(fl []c24Flag) string {
	var e []string
	for _, f := range fl {
		e = append(e, "("+coqlit.Bytes(f.Name)+", "+c24CoqVal(f.V)+")")
	}
	return coqlit.List(e)
}

func (c24) Run(raw json.RawMessage) Result {
	var c c24Case
	if err := json.Unmarshal(raw, &c); err != nil {
		die("C24: bad case: %v", err)
	}
	var o c24Obs
	cyc := c24HasCycle(c.Table)
	observe := func(slow bool) c24Obs {
		if cyc {
			return c24ViaChild(raw, slow)
		}
		return c24Observe(c, slow)
	}
	o = observe(false)
	// a hang may be an overloaded machine: look again with generous timeouts (a real
	// hang is deterministic, so only the first few are double-checked)
	if (o.Pf == "hang" || o.Ab == "failed") && c24Rechecks < 12 {
		c24Rechecks++
		o = observe(true)
	}
	var tbl []string
	for _, kv := range c.Table {
		tbl = append(tbl, "("+coqlit.Bytes(kv[0])+", "+coqlit.Bytes(kv[1])+")")
	}
	spec := coqlit.Record("allow_additional", coqlit.Bool(c.Allow), "ignore_invalid", coqlit.Bool(c.Ignore),
		"strict_placement", coqlit.Bool(c.Strict), "table", coqlit.List(tbl))
	var orc []string
	for _, e := range o.Oracle {
		v := "None"
		if e.V != nil {
			v = "(Some " + c24CoqVal(*e.V) + ")"
		}
		orc = append(orc, "("+coqlit.Bytes(e.Ty)+", "+coqlit.Bytes(e.Raw)+", "+v+")")
	}
	var pf string
	switch o.Pf {
	case "ok":
		pf = coqlit.App("PfOk", c24CoqFlags(o.Flags), coqlit.BytesList(o.Add))
	case "err":
		pf = "PfErr"
	case "panic":
		pf = "PfPanic"
	default:
		pf = "PfHang"
	}
	ab := "AbFailed"
	if o.Ab == "ok" {
		ab = coqlit.App("AbOk", coqlit.Record("ao_flags", c24CoqFlags(o.AbFlag), "ao_additional", coqlit.BytesList(o.AbAdd),
			"ao_error", coqlit.Bool(o.AbErr), "ao_exit", coqlit.Z(int64(o.AbExit))))
	}
	coq := coqlit.Record("c_spec", spec, "c_args", coqlit.BytesList(c.Args), "c_oracle", coqlit.List(orc), "c_pf", pf, "c_ab", ab)

	declared, alias, dd := false, false, false
	fm := map[string]string{}
	for _, kv := range c.Table {
		fm[kv[0]] = kv[1]
	}
	for _, a := range c.Args {
		if v, ok := fm[a]; ok {
			declared = true
			if strings.HasPrefix(v, "-") {
				alias = true
			}
		}
		if a == "--" {
			dd = true
		}
	}
	class := c.Src + "/" + o.Pf
	if cyc {
		class += "+cyclic-table"
	}
	if alias {
		class += "+alias"
	}
	if dd {
		class += "+dd"
	}
	return Result{Obs: o, Coq: coq, Nontrivial: declared && len(c.Table) > 0, Class: class}
}

// Shrink: drop one argument, or one table entry.
func (c24) Shrink(raw json.RawMessage) []any {
	var c c24Case
	if err := json.Unmarshal(raw, &c); err != nil {
		return nil
	}
	var out []any
	for i := range c.Args {
		d := c
		d.Args = append(append([]string(nil), c.Args[:i]...), c.Args[i+1:]...)
		out = append(out, d)
	}
	for i := range c.Table {
		d := c
		d.Table = append(append([][2]string(nil), c.Table[:i]...), c.Table[i+1:]...)
		out = append(out, d)
	}
	return out
}
