//go:build prop_c25 || prop_all

package main

// C25 — Config values are scoped like variables.
// Cases: a declaration of four options (global flag chosen per case; a fifth
// key is never defined) and a tree of config set / default / get operations
// nested in function calls and blocks. The program runs at SESSION level (a
// fork of the shell process that shares its config, as the interactive prompt
// does), so depth 0 is the session scope and calls are depth 1..n.
// get prints `t<tag>=<value>` (empty value = the get failed); set/default print
// `t<tag>=0` or `t<tag>!`.

import (
	"encoding/json"
	"fmt"
	"math/rand"
	"regexp"
	"strconv"
	"strings"
	"time"

	"github.com/lmorg/murex/config"
	"github.com/lmorg/murex/lang"
	"github.com/lmorg/murex/lang/ref"
	"github.com/lmorg/murex/lang/types"

	"verifharness/coqlit"
)

type c25Op struct {
	K    string  `json:"k"` // set default get call block
	X    int     `json:"x,omitempty"`
	V    int     `json:"v,omitempty"`
	Syn  int     `json:"syn,omitempty"`
	Body []c25Op `json:"body,omitempty"`
}

type c25Case struct {
	Globals []bool  `json:"globals"` // Global flag of option 0..3 (option 4 is never defined)
	Ops     []c25Op `json:"ops"`
}

type c25Ev struct {
	Tag int  `json:"t"`
	Ok  bool `json:"ok"`
	V   int  `json:"v"`
}

type c25Obs struct {
	Status int     `json:"status"`
	Trace  []c25Ev `json:"trace"`
	Code   string  `json:"code,omitempty"`
}

type c25 struct{}

func init() { register("C25", c25{}) }

const (
	c25App      = "verifcxxv"
	c25NOpts    = 4 // defined options; key index 4 is undefined
	c25CallSyn  = 4
	c25BlockSyn = 6
	c25SetSyn   = 2
	c25DefSyn   = 2
)

func c25Key(x int) string  { return fmt.Sprintf("k%d", c25Mod(x, c25NOpts+1)) }
func c25Default(x int) int { return 100 + x }

func c25Mod(a, n int) int {
	if a < 0 {
		a = -a
	}
	return a % n
}

type c25Render struct {
	tag      int
	fn       int
	defs     []string
	sess     bool // rendering code that runs at session scope: privates are not considered there
	otherMod bool // rendering code that runs under a `source {}` module: the program's privates are not visible
	uniq     string
}

func (r *c25Render) ops(ops []c25Op) (string, string) {
	var cs, qs []string
	for _, o := range ops {
		c, q := r.op(o)
		cs = append(cs, c)
		qs = append(qs, q)
	}
	return strings.Join(cs, "; "), coqlit.List(qs)
}

func (r *c25Render) op(o c25Op) (string, string) {
	k := c25Key(o.X)
	kq := coqlit.N(uint64(c25Mod(o.X, c25NOpts+1)))
	switch o.K {
	case "set":
		r.tag++
		t := r.tag
		q := coqlit.App("CSet", coqlit.N(uint64(t)), kq, coqlit.N(uint64(o.V)))
		cmd := fmt.Sprintf("config set %s %s %d", c25App, k, o.V)
		if c25Mod(o.Syn, c25SetSyn) == 1 {
			cmd = fmt.Sprintf("out %d -> config set %s %s", o.V, c25App, k)
		}
		return fmt.Sprintf(`try { %s; out "t%d=0" }; catch { out "t%d!" }`, cmd, t, t), q
	case "default":
		r.tag++
		t := r.tag
		q := coqlit.App("CDefault", coqlit.N(uint64(t)), kq)
		cmd := fmt.Sprintf("config default %s %s", c25App, k)
		if c25Mod(o.Syn, c25DefSyn) == 1 {
			cmd = fmt.Sprintf("!config %s %s", c25App, k)
		}
		return fmt.Sprintf(`try { %s; out "t%d=0" }; catch { out "t%d!" }`, cmd, t, t), q
	case "get":
		r.tag++
		t := r.tag
		q := coqlit.App("CGet", coqlit.N(uint64(t)), kq)
		return fmt.Sprintf(`out "t%d=${config get %s %s}"`, t, c25App, k), q
	case "call":
		syn := c25Mod(o.Syn, c25CallSyn)
		if syn == 2 && (r.sess || r.otherMod) {
			syn = 0
		}
		savedSess, savedMod := r.sess, r.otherMod
		r.sess = false
		switch syn {
		case 0, 2:
			r.otherMod = false // a function / private body runs under the module that defined it
		case 3:
			r.otherMod = true
		} // case 1: `fexec function` runs the body under the CALLER's module
		body, q := r.ops(o.Body)
		r.sess, r.otherMod = savedSess, savedMod
		q = coqlit.App("CCall", q)
		r.fn++
		switch syn {
		case 0:
			fn := fmt.Sprintf("cxxvfn%s%d", r.uniq, r.fn)
			r.defs = append(r.defs, "function "+fn+" { "+body+" }")
			return fn, q
		case 1:
			fn := fmt.Sprintf("cxxvfn%s%d", r.uniq, r.fn)
			r.defs = append(r.defs, "function "+fn+" { "+body+" }")
			return "fexec function " + fn, q
		case 2:
			fn := fmt.Sprintf("cxxvpv%s%d", r.uniq, r.fn)
			r.defs = append(r.defs, "private "+fn+" { "+body+" }")
			return fn, q
		default:
			return "source { " + body + " }", q
		}
	case "block":
		body, q := r.ops(o.Body)
		q = coqlit.App("CBlock", q)
		switch c25Mod(o.Syn, c25BlockSyn) {
		case 0:
			return "if { true } then { " + body + " }", q
		case 1:
			return "if { false } then { out never } else { " + body + " }", q
		case 2:
			return "switch { case { true } then { " + body + " } }", q
		case 3:
			return "out ${ " + body + " }", q
		case 4:
			return "unsafe { " + body + " }", q
		default:
			return "%[1] -> foreach ! { " + body + " }", q
		}
	}
	die("C25: bad op kind %q", o.K)
	return "", ""
}

var c25Counter int

// c25RunSession executes a block at session level: a non-function fork of the
// shell process, sharing its config table (what the interactive prompt does).
func c25RunSession(block string, timeout time.Duration) MxResult {
	initMurex()
	c25Counter++
	fork := lang.ShellProcess.Fork(lang.F_PARENT_VARTABLE | lang.F_NEW_MODULE | lang.F_NO_STDIN | lang.F_CREATE_STDOUT | lang.F_CREATE_STDERR)
	fork.FileRef = &ref.File{Source: &ref.Source{Module: fmt.Sprintf("murex/verif-cxxv-%d", c25Counter)}}
	type ret struct {
		n   int
		err error
	}
	done := make(chan ret, 1)
	go func() {
		n, err := fork.Execute([]rune(block))
		done <- ret{n, err}
	}()
	var r MxResult
	select {
	case x := <-done:
		r.ExitNum = x.n
		r.Err = x.err != nil
	case <-time.After(timeout):
		r.Timeout = true
		return r
	}
	if b, err := fork.Stdout.ReadAll(); err == nil {
		r.Stdout = string(b)
	}
	if b, err := fork.Stderr.ReadAll(); err == nil {
		r.Stderr = string(b)
	}
	return r
}

var c25Line = regexp.MustCompile(`^t(\d+)(?:=(.*)|(!))$`)

func (c25) Run(raw json.RawMessage) Result {
	var c c25Case
	if err := json.Unmarshal(raw, &c); err != nil {
		die("C25: bad case: %v", err)
	}
	initMurex()
	for len(c.Globals) < c25NOpts {
		c.Globals = append(c.Globals, false)
	}
	// (re)declare the options: Define resets the session value to the default
	var dq []string
	for i := 0; i < c25NOpts; i++ {
		lang.ShellProcess.Config.Define(c25App, c25Key(i), config.Properties{
			Description: "verification option",
			Default:     strconv.Itoa(c25Default(i)),
			DataType:    types.String,
			Global:      c.Globals[i],
		})
		dq = append(dq, "("+coqlit.N(uint64(i))+", "+coqlit.Record("d_global", coqlit.Bool(c.Globals[i]),
			"d_default", coqlit.N(uint64(c25Default(i))))+")")
	}
	r := &c25Render{sess: true, uniq: ""}
	body, opsCoq := r.ops(c.Ops)
	code := strings.Join(r.defs, "\n")
	if code != "" {
		code += "\n"
	}
	code += body + "\n"
	res := c25RunSession(code, 30*time.Second)
	var o c25Obs
	if res.Timeout || res.Err {
		o.Status = 1
		o.Code = code
	}
	for _, line := range strings.Split(res.Stdout, "\n") {
		m := c25Line.FindStringSubmatch(strings.TrimRight(line, "\r"))
		if m == nil {
			continue
		}
		tag, _ := strconv.Atoi(m[1])
		ev := c25Ev{Tag: tag}
		if m[3] == "" && m[2] != "" {
			ev.Ok = true
			v, err := strconv.Atoi(m[2])
			if err != nil || v < 0 {
				v = 4294967295
			}
			ev.V = v
		}
		o.Trace = append(o.Trace, ev)
	}
	evs := make([]string, len(o.Trace))
	for i, e := range o.Trace {
		evs[i] = "(" + coqlit.N(uint64(e.Tag)) + ", " + coqlit.Option(e.Ok, coqlit.N(uint64(e.V))) + ")"
	}
	coq := coqlit.Record("c_decls", coqlit.List(dq), "c_ops", opsCoq,
		"c_status", coqlit.N(uint64(o.Status)), "c_obs", coqlit.List(evs))
	depth, calls, writes, gets := c25Stats(c.Ops)
	class := fmt.Sprintf("depth%d", depth)
	return Result{Obs: o, Coq: coq, Nontrivial: calls > 0 && writes > 0 && gets > 0, Class: class}
}

func c25Stats(ops []c25Op) (depth, calls, writes, gets int) {
	for _, o := range ops {
		switch o.K {
		case "call", "block":
			d, c, w, g := c25Stats(o.Body)
			if o.K == "call" {
				d++
				c++
			}
			if d > depth {
				depth = d
			}
			calls += c
			writes += w
			gets += g
		case "get":
			gets++
		default:
			writes++
		}
	}
	return
}

// ---------------------------------------------------------------- generation

type c25G struct {
	r   *rand.Rand
	val int
	syn int
}

func (g *c25G) fresh() int { g.val++; return g.val }
func (g *c25G) nsyn() int  { g.syn++; return g.syn }

func (g *c25G) key() int {
	switch p := g.r.Intn(100); {
	case p < 35:
		return 0
	case p < 55:
		return 1
	case p < 80:
		return 2
	case p < 93:
		return 3
	}
	return 4
}

func (g *c25G) ops(depth int, budget *int) []c25Op {
	n := 1 + g.r.Intn(6)
	var out []c25Op
	for i := 0; i < n && *budget > 0; i++ {
		*budget--
		p := g.r.Intn(100)
		switch {
		case p < 28:
			out = append(out, c25Op{K: "set", X: g.key(), V: g.fresh(), Syn: g.r.Intn(c25SetSyn)})
		case p < 38:
			out = append(out, c25Op{K: "default", X: g.key(), Syn: g.r.Intn(c25DefSyn)})
		case p < 70:
			out = append(out, c25Op{K: "get", X: g.key()})
		default:
			if depth <= 0 {
				out = append(out, c25Op{K: "get", X: g.key()})
				continue
			}
			if g.r.Intn(10) < 7 {
				out = append(out, c25Op{K: "call", Syn: g.r.Intn(c25CallSyn), Body: g.ops(depth-1, budget)})
			} else {
				out = append(out, c25Op{K: "block", Syn: g.r.Intn(c25BlockSyn), Body: g.ops(depth, budget)})
			}
		}
	}
	return out
}

func (g *c25G) w(k int) []c25Op {
	switch k {
	case 1:
		return []c25Op{{K: "set", X: 0, V: g.fresh(), Syn: g.nsyn()}, {K: "set", X: 2, V: g.fresh(), Syn: g.nsyn()}}
	case 2:
		return []c25Op{{K: "default", X: 0, Syn: g.nsyn()}, {K: "default", X: 2, Syn: g.nsyn()}}
	case 3:
		return []c25Op{{K: "set", X: 4, V: g.fresh()}, {K: "default", X: 4}}
	}
	return nil
}

func (g *c25G) gets() []c25Op {
	return []c25Op{{K: "get", X: 0}, {K: "get", X: 2}, {K: "get", X: 4}}
}

func (g *c25G) wrap(k int, body []c25Op) c25Op {
	if k == 0 {
		return c25Op{K: "call", Syn: g.nsyn(), Body: body}
	}
	return c25Op{K: "block", Syn: g.nsyn(), Body: body}
}

func c25Cat(parts ...[]c25Op) []c25Op {
	var out []c25Op
	for _, p := range parts {
		out = append(out, p...)
	}
	return out
}

func (c25) Gen(seed int64, tier string, emit func(any)) {
	g := &c25G{r: rand.New(rand.NewSource(seed))}
	std := []bool{false, false, true, true}
	// design witness: caller override not inherited, global seen everywhere, default restores
	emit(c25Case{Globals: std, Ops: []c25Op{
		{K: "call", Body: []c25Op{{K: "set", X: 0, V: 5}, {K: "get", X: 0},
			{K: "call", Body: []c25Op{{K: "get", X: 0}, {K: "set", X: 2, V: 7}}},
			{K: "get", X: 2}, {K: "default", X: 0}, {K: "get", X: 0}}},
		{K: "get", X: 0}, {K: "get", X: 2}, {K: "set", X: 0, V: 6},
		{K: "call", Body: []c25Op{{K: "get", X: 0}}}, {K: "get", X: 4}}})
	// session write ; w1 { write ; w2 { write ; gets } ; gets } ; gets     (keys: 0 non-global, 2 global, 4 undefined)
	for pre := 0; pre < 3; pre++ {
		for w1 := 0; w1 < 2; w1++ {
			for mid := 0; mid < 4; mid++ {
				for w2 := 0; w2 < 2; w2++ {
					for in := 0; in < 4; in++ {
						g.val = 0
						b2 := c25Cat(g.w(in), g.gets())
						b1 := c25Cat(g.gets(), g.w(mid), []c25Op{g.wrap(w2, b2)}, g.gets())
						ops := c25Cat(g.w(pre), []c25Op{g.wrap(w1, b1)}, g.gets())
						emit(c25Case{Globals: std, Ops: ops})
					}
				}
			}
		}
	}
	// every call syntax x every block syntax
	for cs := 0; cs < c25CallSyn; cs++ {
		for bs := 0; bs < c25BlockSyn; bs++ {
			g.val = 0
			ops := []c25Op{
				{K: "set", X: 1, V: g.fresh()},
				{K: "call", Body: []c25Op{ // depth 1 so that privates are callable below
					{K: "call", Syn: cs, Body: []c25Op{
						{K: "get", X: 0}, {K: "get", X: 1},
						{K: "block", Syn: bs, Body: []c25Op{{K: "set", X: 0, V: g.fresh()}, {K: "set", X: 3, V: g.fresh()}, {K: "get", X: 0}}},
						{K: "get", X: 0}, {K: "get", X: 3}}},
					{K: "get", X: 0}, {K: "get", X: 3}}},
				{K: "get", X: 0}, {K: "get", X: 1}, {K: "get", X: 3},
			}
			emit(c25Case{Globals: std, Ops: ops})
		}
	}
	n := 350
	if tier == "thorough" {
		n = 6000
	}
	for i := 0; i < n; i++ {
		g.val = 0
		gl := make([]bool, c25NOpts)
		for j := range gl {
			gl[j] = std[j]
			if g.r.Intn(6) == 0 {
				gl[j] = !gl[j]
			}
		}
		budget := 5 + g.r.Intn(30)
		depth := g.r.Intn(4)
		var ops []c25Op
		for len(ops) == 0 || (budget > 0 && g.r.Intn(3) > 0) {
			ops = append(ops, g.ops(depth, &budget)...)
			if budget <= 0 {
				break
			}
		}
		emit(c25Case{Globals: gl, Ops: ops})
	}
}

func c25Remove(ops []c25Op, emit func([]c25Op)) {
	for i := range ops {
		emit(append(append([]c25Op{}, ops[:i]...), ops[i+1:]...))
		if ops[i].K == "call" || ops[i].K == "block" {
			c25Remove(ops[i].Body, func(b []c25Op) {
				cp := append([]c25Op{}, ops...)
				o := cp[i]
				o.Body = b
				cp[i] = o
				emit(cp)
			})
		}
	}
}

func (c25) Shrink(raw json.RawMessage) []any {
	var c c25Case
	if err := json.Unmarshal(raw, &c); err != nil {
		return nil
	}
	var out []any
	c25Remove(c.Ops, func(o []c25Op) {
		if len(out) < 200 {
			out = append(out, c25Case{Globals: c.Globals, Ops: o})
		}
	})
	return out
}
