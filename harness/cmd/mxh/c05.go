//go:build prop_c05 || prop_all

package main

// C05 — try/trypipe stop on failure and honour `||`.
// The chains of C04 (plus `|`) run inside `try { }`, `trypipe { }` and as the
// body of a function that starts with `runmode try function` / `runmode trypipe
// function`; stdout and exit number of the block are compared with the Coq
// model of runModeTry / runModeTryPipe and with the reference interpreter.

import (
	"encoding/json"
	"math/rand"

	"verifharness/coqlit"
)

type c05 struct{}

func init() { register("C05", c05{}) }

var c05Singles = []string{"o", "x", "y"}
var c05Units = []string{"o", "x", "oo", "ox", "xo", "yo"}
var c05Modes = []string{"try", "trypipe", "fntry", "fntrypipe"}

func (c05) Gen(seed int64, tier string, emit func(any)) {
	rng := rand.New(rand.NewSource(seed))
	e := func(c rmCase) { emit(c) }
	maxUnits, maxFn, rot := 3, 3, 4
	if tier == "thorough" {
		maxUnits, maxFn, rot = 4, 4, 5
	}
	// exhaustive under try {} and trypipe {}: every chain of 1..3 (4) units
	// where a unit is a command or a two-stage pipeline
	for _, m := range []string{"try", "trypipe"} {
		for n := 1; n <= maxUnits; n++ {
			rmExhaustive(rng, m, n, c05Units, rmJoiners, e)
		}
	}
	// exhaustive under the two `runmode … function` forms: chains of 1..3 (4)
	// single commands
	for _, m := range []string{"fntry", "fntrypipe"} {
		for n := 1; n <= maxFn; n++ {
			rmExhaustive(rng, m, n, c05Singles, rmJoiners, e)
		}
	}
	// every chain of 4 (5) single commands, the mode rotating over the four
	k := 0
	rmExhaustive(rng, "try", rot, c05Singles, rmJoiners, func(c rmCase) {
		c.Mode = c05Modes[k%4]
		k++
		e(c)
	})
	// tryerr / trypipeerr: every chain of 1..3 units over {ok, fail, stderr-only
	// with exit 0, stderr-only | forwarder, ok | stderr-writing forwarder} ...
	errUnits := []string{"o", "x", "s", "sO", "os"}
	maxErr, maxErrFn := 3, 2
	if tier == "thorough" {
		maxErrFn = 3
	}
	for _, m := range []string{"tryerr", "trypipeerr"} {
		for n := 1; n <= maxErr; n++ {
			rmExhaustive(rng, m, n, errUnits, rmJoiners, e)
		}
	}
	// ... every chain of 1..2 (3) single commands over {ok, fail, stderr-only, both}
	// under `runmode tryerr|trypipeerr function`, and random longer chains
	for _, m := range []string{"fntryerr", "fntrypipeerr"} {
		for n := 1; n <= maxErrFn; n++ {
			rmExhaustive(rng, m, n, []string{"o", "x", "s", "b"}, rmJoiners, e)
		}
	}
	errModes := []string{"tryerr", "trypipeerr", "fntryerr", "fntrypipeerr"}
	nerr := 600
	if tier == "thorough" {
		nerr = 8000
	}
	for i := 0; i < nerr; i++ {
		e(rmRandomErr(rng, errModes[rng.Intn(4)], 2+rng.Intn(8)))
	}
	// random longer chains with 1-3 stage pipelines
	nrand, maxLen := 900, 9
	if tier == "thorough" {
		nrand, maxLen = 12000, 12
	}
	for i := 0; i < nrand; i++ {
		n := 3 + rng.Intn(maxLen-2)
		e(rmRandom(rng, c05Modes[rng.Intn(4)], n, 4))
	}
}

func (c05) Run(raw json.RawMessage) Result {
	var c rmCase
	if err := json.Unmarshal(raw, &c); err != nil {
		die("C05: bad case: %v", err)
	}
	o, obs, flags := rmRun(c)
	coq := coqlit.Record("k_mode", rmModeCoq(c.Mode), "k_prog", rmProgCoq(c), "k_flags", flags, "k_obs", obs)
	return Result{Obs: o, Coq: coq, Nontrivial: rmNontrivial(c), Class: rmClass(c)}
}

func (c05) Shrink(raw json.RawMessage) []any {
	var c rmCase
	if err := json.Unmarshal(raw, &c); err != nil {
		return nil
	}
	var out []any
	for _, d := range rmShrink(c) {
		out = append(out, d)
	}
	return out
}
