//go:build prop_c02 || prop_all

package main

// C02 — A pipe's data type is set once and never changes.
//
// ctl : thread programs of SetDataType / GetDataType / Open / Close / ForceClose
//       (plus the odd Write / Read) + a schedule, executed on a real
//       streams.Stdin one atomic action at a time (streams_shared.go);
// free: real goroutines: getters block in GetDataType before any type is
//       declared, setters then race to declare, then close.

import (
	"encoding/json"
	"fmt"
	"math/rand"
	"runtime"
	"sync"
	"sync/atomic"
	"time"

	"github.com/lmorg/murex/builtins/pipes/streams"

	"verifharness/coqlit"
)

type c02Case struct {
	Mode string `json:"mode"` // ctl | free
	Tag  string `json:"tag,omitempty"`
	strmCtlCase
	// free
	Sets  [][]string `json:"sets,omitempty"` // setter -> types (hex)
	NGet  int        `json:"nget,omitempty"`
	Delay int        `json:"delay,omitempty"` // microseconds before the setters start
}

type c02FreeObs struct {
	Gets  []string `json:"gets"` // hex
	Final string   `json:"final"`
	Hang  bool     `json:"hang"` // some GetDataType (or setter) did not return within the deadline
}

type c02 struct{}

func init() { register("C02", c02{}) }

var c02Types = []string{"", "null", "json", "str", "*", "nul", "null\x00", "\xff"}

func c02S(t string) strmOp { return strmOp{K: "setdt", P: strmHex(t)} }
func c02K(k string) strmOp { return strmOp{K: k} }

func c02RandProg(r *rand.Rand, role int) []strmOp {
	var p []strmOp
	ty := func() string {
		if r.Intn(3) == 0 {
			return c02Types[r.Intn(len(c02Types))]
		}
		return c02Types[r.Intn(4)]
	}
	switch role {
	case 0: // writer: open, declare, close
		p = append(p, c02K("open"))
		for i, n := 0, 1+r.Intn(3); i < n; i++ {
			p = append(p, c02S(ty()))
		}
		if r.Intn(3) == 0 {
			p = append(p, strmOp{K: "write", P: strmHex("x")})
		}
		if r.Intn(6) != 0 {
			p = append(p, c02K("close"))
		}
	case 1: // reader: ask for the type
		p = append(p, c02K("getdt"))
		if r.Intn(3) == 0 {
			p = append(p, c02K("getdt"))
		}
		if r.Intn(4) == 0 {
			p = append(p, strmOp{K: "read", N: 2})
		}
	case 2: // setter without open
		for i, n := 0, 1+r.Intn(3); i < n; i++ {
			p = append(p, c02S(ty()))
		}
		if r.Intn(3) == 0 {
			p = append(p, c02K("getdt"))
		}
	case 3: // disturbance
		kinds := []string{"open", "close", "force", "getdt", "set", "set", "open", "close", "stats"}
		for i, n := 0, 1+r.Intn(4); i < n; i++ {
			k := kinds[r.Intn(len(kinds))]
			if k == "set" {
				p = append(p, c02S(ty()))
			} else {
				p = append(p, c02K(k))
			}
		}
	}
	return p
}

func c02RandSched(r *rand.Rand, nthreads, n int) []int {
	s := make([]int, 0, n)
	style := r.Intn(3)
	for len(s) < n {
		t := r.Intn(nthreads)
		burst := 1
		if style == 1 {
			burst = 1 + r.Intn(3)
		} else if style == 2 {
			burst = 1 + r.Intn(8)
		}
		for j := 0; j < burst && len(s) < n; j++ {
			s = append(s, t)
		}
	}
	return s
}

func c02RandCtl(r *rand.Rand, tier string) c02Case {
	nt := 1 + r.Intn(4)
	var progs [][]strmOp
	steps := 0
	for i := 0; i < nt; i++ {
		role := r.Intn(4)
		if i == 0 {
			role = 0
		}
		if i == 1 {
			role = 1
		}
		p := c02RandProg(r, role)
		progs = append(progs, p)
		steps += 3 * len(p)
	}
	n := steps + r.Intn(steps+6)
	lim := 60
	if tier == "thorough" {
		lim = 120
	}
	if n > lim {
		n = lim
	}
	return c02Case{Mode: "ctl", Tag: fmt.Sprintf("rnd%dt", nt), strmCtlCase: strmCtlCase{Max: 8, Progs: progs, Sched: c02RandSched(r, nt, n)}}
}

func c02Seq(tag string, ops ...strmOp) c02Case {
	return c02Case{Mode: "ctl", Tag: tag, strmCtlCase: strmCtlCase{Max: 8, Progs: [][]strmOp{ops}, Sched: make([]int, 4*len(ops)+2)}}
}

func (c02) Gen(seed int64, tier string, emit func(any)) {
	// sequential shapes
	emit(c02Seq("seq", c02S(""), c02S("null"), c02S("json"), c02S("str"), c02K("getdt")))
	emit(c02Seq("seq", c02K("getdt"), c02S("json"), c02K("getdt")))
	emit(c02Seq("seq", c02K("open"), c02K("close"), c02K("getdt"), c02S("str"), c02K("getdt")))
	emit(c02Seq("seq", c02K("open"), c02K("force"), c02K("getdt"), c02S("str"), c02K("getdt"), c02S("json"), c02K("getdt")))
	emit(c02Seq("seq", c02K("open"), c02S("null"), c02S("*"), c02S("json"), c02K("close"), c02K("getdt")))

	// exhaustive: every schedule of length L over three threads (two racing setters, one getter)
	L := 7
	if tier == "thorough" {
		L = 8
	}
	trios := [][3][]strmOp{
		{{c02K("open"), c02S("json"), c02K("close")}, {c02S("null"), c02S("str")}, {c02K("getdt")}},
		{{c02K("open"), c02S(""), c02K("close")}, {c02S("str")}, {c02K("getdt"), c02K("getdt")}},
	}
	if tier == "thorough" {
		trios = append(trios, [3][]strmOp{{c02K("open"), c02S("json"), c02K("force")}, {c02S("str"), c02K("getdt")}, {c02K("getdt")}})
	}
	pow := 1
	for i := 0; i < L; i++ {
		pow *= 3
	}
	for _, tr := range trios {
		for m := 0; m < pow; m++ {
			s := make([]int, L)
			x := m
			for j := 0; j < L; j++ {
				s[j] = x % 3
				x /= 3
			}
			emit(c02Case{Mode: "ctl", Tag: "exh", strmCtlCase: strmCtlCase{Max: 8, Progs: [][]strmOp{tr[0], tr[1], tr[2]}, Sched: s}})
		}
	}

	r := rand.New(rand.NewSource(seed))
	nctl, nfree := 1500, 150
	if tier == "thorough" {
		nctl, nfree = 8000, 1000
	}
	for i := 0; i < nctl; i++ {
		emit(c02RandCtl(r, tier))
	}
	for i := 0; i < nfree; i++ {
		c := c02Case{Mode: "free", Tag: "free", NGet: 1 + r.Intn(4), Delay: []int{0, 0, 50, 500}[r.Intn(4)]}
		for w, nw := 0, 1+r.Intn(4); w < nw; w++ {
			var ts []string
			for i, n := 0, r.Intn(4); i < n; i++ {
				t := c02Types[r.Intn(len(c02Types))]
				if r.Intn(2) == 0 {
					t = fmt.Sprintf("t%d_%d", w, i)
				}
				ts = append(ts, strmHex(t))
			}
			c.Sets = append(c.Sets, ts)
		}
		emit(c)
	}
}

func c02RunFree(c c02Case) c02FreeObs {
	strmMu.Lock()
	defer strmMu.Unlock()
	s := streams.NewStdin()
	var ctr uint32
	streams.VerifSetYield(func(x *streams.Stdin, _ string) {
		if x != s {
			return
		}
		n := atomic.AddUint32(&ctr, 1)
		h := n * 2654435761
		switch {
		case h%53 == 0:
			time.Sleep(time.Microsecond)
		case h%3 == 0:
			runtime.Gosched()
		}
	})
	defer streams.VerifSetYield(nil)

	for range c.Sets {
		s.Open()
	}
	var wg sync.WaitGroup
	gets := make([]string, c.NGet)
	for g := 0; g < c.NGet; g++ {
		wg.Add(1)
		go func(g int) {
			defer wg.Done()
			gets[g] = strmHex(s.GetDataType())
		}(g)
	}
	if c.Delay > 0 {
		time.Sleep(time.Duration(c.Delay) * time.Microsecond)
	}
	for _, ts := range c.Sets {
		wg.Add(1)
		go func(ts []string) {
			defer wg.Done()
			for _, t := range ts {
				s.SetDataType(strmUnhex(t))
			}
			s.Close()
		}(ts)
	}
	done := make(chan struct{})
	go func() { wg.Wait(); close(done) }()
	var o c02FreeObs
	select {
	case <-done:
	case <-time.After(12 * time.Second):
		// hang: cancel the pipe (GetDataType polls the context) and give up
		o.Hang = true
		s.ForceClose()
		select {
		case <-done:
		case <-time.After(3 * time.Second):
		}
	}
	o.Gets = append([]string{}, gets...)
	sn, _ := strmSnapOf(s)
	o.Final = sn.DT
	return o
}

func (c02) Run(raw json.RawMessage) Result {
	var c c02Case
	if err := json.Unmarshal(raw, &c); err != nil {
		die("C02: bad case: %v", err)
	}
	if c.Mode == "free" {
		o := c02RunFree(c)
		sets := make([]string, len(c.Sets))
		nvalid := 0
		for i, ts := range c.Sets {
			e := make([]string, len(ts))
			for j, t := range ts {
				e[j] = coqlit.Bytes(strmUnhex(t))
				if u := strmUnhex(t); u != "" && u != "null" {
					nvalid++
				}
			}
			sets[i] = coqlit.List(e)
		}
		gets := make([]string, len(o.Gets))
		for i, g := range o.Gets {
			gets[i] = coqlit.Bytes(strmUnhex(g))
		}
		coq := coqlit.App("Free", coqlit.List(sets), coqlit.List(gets), coqlit.Bytes(strmUnhex(o.Final)), coqlit.Bool(o.Hang))
		return Result{Obs: o, Coq: coq, Nontrivial: nvalid > 1 || len(c.Sets) > 1, Class: "free"}
	}
	o := strmRunCtl(c.strmCtlCase)
	coq := coqlit.App("Ctl", fmt.Sprint(c.Max), strmProgsCoq(c.Progs), strmSchedCoq(c.Sched), o.coq())
	// non-trivial: interleaved inside a call, or at least two SetDataType / GetDataType steps from different threads
	type brief struct {
		Steps       int         `json:"steps"`
		Returns     []strmEvent `json:"returns"`
		Final       string      `json:"final_dt"`
		Interleaved bool        `json:"interleaved"`
		Hang        bool        `json:"hang,omitempty"`
	}
	b := brief{Steps: len(o.Steps), Interleaved: o.Interleaved, Hang: o.Hang}
	for _, s := range o.Steps {
		if s.Ev.K == "setdt" || s.Ev.K == "dt" {
			b.Returns = append(b.Returns, s.Ev)
		}
	}
	if n := len(o.Steps); n > 0 {
		b.Final = o.Steps[n-1].Sn.DT
	}
	cls := c.Tag
	if cls == "" {
		cls = "ctl"
	}
	return Result{Obs: b, Coq: coq, Nontrivial: o.Interleaved, Class: "ctl/" + cls}
}

func (c02) Shrink(raw json.RawMessage) []any {
	var c c02Case
	if err := json.Unmarshal(raw, &c); err != nil {
		return nil
	}
	var out []any
	if c.Mode == "free" {
		for w := range c.Sets {
			for j := range c.Sets[w] {
				n := c
				n.Sets = append([][]string{}, c.Sets...)
				n.Sets[w] = append(append([]string{}, c.Sets[w][:j]...), c.Sets[w][j+1:]...)
				out = append(out, n)
			}
		}
		if c.NGet > 1 {
			n := c
			n.NGet--
			out = append(out, n)
		}
		if len(out) > 6 { // a hanging candidate costs a whole deadline
			out = out[:6]
		}
		return out
	}
	for _, s := range strmShrinkCtl(c.strmCtlCase) {
		out = append(out, c02Case{Mode: "ctl", Tag: c.Tag, strmCtlCase: s})
	}
	return out
}
