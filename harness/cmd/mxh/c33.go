//go:build prop_c33 || prop_all

package main

// C33 — Redirections route output exactly as written.
//
// A case is a block of 1..4 commands.  Every command is either the harness
// builtin `c33emit` (copies its stdin to stdout when it is a method, then writes
// the given bytes to stdout and to stderr) or the real `>` / `>>` file builtins,
// each with a list of <out> <err> <null> <!out> <!err> <!null> redirections and
// linked to the next command by a pipe or by `;`.  The block runs in-process in a
// function fork; the block's stdout / stderr bytes and the files are observed.

import (
	"bytes"
	"encoding/hex"
	"encoding/json"
	"fmt"
	"math/rand"
	"os"
	"path/filepath"
	"strings"
	"sync"
	"time"

	"github.com/lmorg/murex/lang"
	"github.com/lmorg/murex/lang/ref"
	"github.com/lmorg/murex/lang/types"

	"verifharness/coqlit"
)

type c33Stage struct {
	Act    string   `json:"act"` // emit|trunc|append
	O      string   `json:"o,omitempty"`
	E      string   `json:"e,omitempty"`
	File   int      `json:"file,omitempty"`
	Redirs []string `json:"redirs,omitempty"` // out err null !out !err !null  p0..p3 !p0..!p3 (user-named pipes)
	Link   string   `json:"link"`             // pipe|qpipe|semi
}

type c33File struct {
	File int    `json:"file"`
	Hex  string `json:"hex"`
}

type c33Case struct {
	Stages []c33Stage `json:"stages"`
	Files  []c33File  `json:"files,omitempty"` // initial contents
	Wrap   string     `json:"wrap,omitempty"`  // "" | func
	Mk     bool       `json:"mk,omitempty"`    // named pipes are created by a leading `pipe names` command of the block itself
}

type c33Obs struct {
	Ok         bool      `json:"ok"` // block compiled and ran
	Out        string    `json:"out"`
	Err        string    `json:"err"`
	Complaints int       `json:"complaints"`
	Files      []c33File `json:"files"`
	Pipes      []c33File `json:"pipes,omitempty"` // contents of the user-named pipes afterwards
	Timeout    bool      `json:"timeout,omitempty"`
	Block      string    `json:"block"`
}

type c33 struct{}

func init() { register("C33", c33{}) }

var c33Once sync.Once

func c33Init() {
	initMurex()
	c33Once.Do(func() {
		lang.DefineFunction("c33emit", c33Emit, types.Generic)
	})
}

func c33Param(s string) ([]byte, error) {
	if !strings.HasPrefix(s, "x") {
		return nil, fmt.Errorf("bad parameter %q", s)
	}
	return hex.DecodeString(s[1:])
}

// c33Emit: `c33emit x<hex-out> x<hex-err>`
func c33Emit(p *lang.Process) error {
	so, err := p.Parameters.String(0)
	if err != nil {
		return err
	}
	se, err := p.Parameters.String(1)
	if err != nil {
		return err
	}
	o, err := c33Param(so)
	if err != nil {
		return err
	}
	e, err := c33Param(se)
	if err != nil {
		return err
	}
	if p.IsMethod {
		in, err := p.Stdin.ReadAll()
		if err != nil {
			return err
		}
		if len(in) > 0 {
			if _, err = p.Stdout.Write(in); err != nil {
				return err
			}
		}
	}
	if len(o) > 0 {
		if _, err = p.Stdout.Write(o); err != nil {
			return err
		}
	}
	if len(e) > 0 {
		if _, err = p.Stderr.Write(e); err != nil {
			return err
		}
	}
	return nil
}

var c33Counter int

const c33Complaint = "Invalid usage of named pipes: "

// c33PipeNo: "p2" / "!p2" -> 2, true; anything else -> false
func c33PipeNo(r string) (int, bool) {
	r = strings.TrimPrefix(r, "!")
	if len(r) == 2 && r[0] == 'p' && r[1] >= '0' && r[1] <= '3' {
		return int(r[1] - '0'), true
	}
	return 0, false
}

func c33Block(c c33Case, dir string, pipePrefix string) string {
	var b strings.Builder
	for i, s := range c.Stages {
		piped := i > 0 && c.Stages[i-1].Link != "semi"
		rd := ""
		for _, r := range s.Redirs {
			if k, ok := c33PipeNo(r); ok {
				bang := ""
				if strings.HasPrefix(r, "!") {
					bang = "!"
				}
				rd += fmt.Sprintf(" <%s%s%d>", bang, pipePrefix, k)
			} else {
				rd += " <" + r + ">"
			}
		}
		switch s.Act {
		case "emit":
			fmt.Fprintf(&b, "c33emit%s x%s x%s", rd, s.O, s.E)
		case "trunc":
			if piped {
				// `cmd |> file`: the `|` was written by the previous command's link
				fmt.Fprintf(&b, ">%s %s", rd, filepath.Join(dir, fmt.Sprintf("f%d", s.File)))
			} else {
				fmt.Fprintf(&b, "fwrite%s %s", rd, filepath.Join(dir, fmt.Sprintf("f%d", s.File)))
			}
		case "append":
			if piped {
				fmt.Fprintf(&b, ">>%s %s", rd, filepath.Join(dir, fmt.Sprintf("f%d", s.File)))
			} else {
				fmt.Fprintf(&b, "fappend%s %s", rd, filepath.Join(dir, fmt.Sprintf("f%d", s.File)))
			}
		default:
			die("C33: bad act %q", s.Act)
		}
		if i+1 < len(c.Stages) || s.Link != "semi" {
			if s.Link == "qpipe" {
				b.WriteString(" ? ")
			} else if s.Link == "pipe" {
				next := ""
				if i+1 < len(c.Stages) {
					next = c.Stages[i+1].Act
				}
				switch next {
				case "trunc":
					b.WriteString(" |") // followed by `> file`  =>  `|> file`
				case "append":
					b.WriteString(" ") // `cmd >> file`
				default:
					b.WriteString(" | ")
				}
			} else {
				b.WriteString("; ")
			}
		}
	}
	return b.String()
}

func (c33) Run(raw json.RawMessage) Result {
	var c c33Case
	if err := json.Unmarshal(raw, &c); err != nil {
		die("C33: bad case: %v", err)
	}
	c33Init()
	dir, err := os.MkdirTemp("", "c33-")
	if err != nil {
		die("C33: %v", err)
	}
	defer os.RemoveAll(dir)
	used := map[int]bool{}
	for _, f := range c.Files {
		b, err := hex.DecodeString(f.Hex)
		if err != nil {
			die("C33: bad hex: %v", err)
		}
		if err := os.WriteFile(filepath.Join(dir, fmt.Sprintf("f%d", f.File)), b, 0o644); err != nil {
			die("C33: %v", err)
		}
		used[f.File] = true
	}
	for _, s := range c.Stages {
		if s.Act != "emit" {
			used[s.File] = true
		}
	}
	c33Counter++
	pipePrefix := fmt.Sprintf("c33p%dx%dx", os.Getpid(), c33Counter)
	usedPipes := map[int]bool{}
	for _, s := range c.Stages {
		for _, r := range s.Redirs {
			if k, ok := c33PipeNo(r); ok {
				usedPipes[k] = true
			}
		}
	}
	mk := ""
	for k := 0; k < 4; k++ {
		if !usedPipes[k] {
			continue
		}
		if c.Mk {
			mk += fmt.Sprintf(" %s%d", pipePrefix, k)
		} else if err := lang.GlobalPipes.CreatePipe(fmt.Sprintf("%s%d", pipePrefix, k), "std", ""); err != nil { // what `pipe name` does
			die("C33: cannot create named pipe: %v", err)
		}
	}
	block := c33Block(c, dir, pipePrefix)
	if mk != "" {
		block = "pipe" + mk + "; " + block
	}
	if c.Wrap == "func" {
		name := fmt.Sprintf("c33f_%d_%d", os.Getpid(), c33Counter)
		block = "function " + name + " { " + block + " }; " + name
	}
	o := c33Obs{Block: strings.ReplaceAll(block, dir, "$D")}

	fork := lang.ShellProcess.Fork(lang.F_FUNCTION | lang.F_NEW_MODULE | lang.F_NO_STDIN | lang.F_CREATE_STDOUT | lang.F_CREATE_STDERR)
	fork.Name.Set("verif")
	fork.FileRef = &ref.File{Source: &ref.Source{Module: fmt.Sprintf("murex/verif-c33-%d", c33Counter)}}
	type ret struct {
		n   int
		err error
	}
	done := make(chan ret, 1)
	go func() {
		n, err := fork.Execute([]rune(block))
		done <- ret{n, err}
	}()
	select {
	case x := <-done:
		o.Ok = x.err == nil
	case <-time.After(20 * time.Second):
		o.Timeout = true
		fork.Process.Done()
	}
	if !o.Timeout {
		bo, _ := fork.Stdout.ReadAll()
		be, _ := fork.Stderr.ReadAll()
		// createProcess writes its complaints before any command runs: strip and count them
		for bytes.HasPrefix(be, []byte(c33Complaint)) {
			nl := bytes.IndexByte(be, '\n')
			if nl < 0 {
				break
			}
			be = be[nl+1:]
			o.Complaints++
		}
		o.Out, o.Err = hex.EncodeToString(bo), hex.EncodeToString(be)
	}
	for k := 0; k < 4; k++ {
		if !usedPipes[k] {
			continue
		}
		name := fmt.Sprintf("%s%d", pipePrefix, k)
		if io, err := lang.GlobalPipes.Get(name); err == nil {
			io.Close()
			if !o.Timeout {
				b, _ := io.ReadAll()
				o.Pipes = append(o.Pipes, c33File{k, hex.EncodeToString(b)})
			}
			lang.GlobalPipes.Delete(name)
		}
	}
	for id := 0; id < 8; id++ {
		if !used[id] {
			continue
		}
		b, err := os.ReadFile(filepath.Join(dir, fmt.Sprintf("f%d", id)))
		if err == nil {
			o.Files = append(o.Files, c33File{id, hex.EncodeToString(b)})
		}
	}

	// ---- Coq term ----
	stages := make([]string, len(c.Stages))
	nred := 0
	nfile := 0
	for i, s := range c.Stages {
		var act string
		switch s.Act {
		case "emit":
			ob, _ := hex.DecodeString(s.O)
			eb, _ := hex.DecodeString(s.E)
			act = coqlit.App("Emit", coqlit.Bytes(string(ob)), coqlit.Bytes(string(eb)))
		case "trunc":
			act = coqlit.App("Trunc", coqlit.N(uint64(s.File)))
			nfile++
		case "append":
			act = coqlit.App("Append", coqlit.N(uint64(s.File)))
			nfile++
		}
		rs := make([]string, len(s.Redirs))
		for j, r := range s.Redirs {
			rs[j] = map[string]string{"out": "R_out", "err": "R_err", "null": "R_null", "!out": "R_bout", "!err": "R_berr", "!null": "R_bnull"}[r]
			if k, ok := c33PipeNo(r); ok {
				if strings.HasPrefix(r, "!") {
					rs[j] = coqlit.App("R_bpipe", coqlit.N(uint64(k)))
				} else {
					rs[j] = coqlit.App("R_pipe", coqlit.N(uint64(k)))
				}
			}
			if rs[j] == "" {
				die("C33: bad redirection %q", r)
			}
			if r != "out" && r != "!err" {
				nred++
			}
		}
		link := "Semi"
		if s.Link == "pipe" {
			link = "Pipe"
		} else if s.Link == "qpipe" {
			link = "QPipe"
		}
		stages[i] = coqlit.Record("s_act", act, "s_redirs", coqlit.List(rs), "s_link", link)
	}
	fl := func(fs []c33File) string {
		e := make([]string, len(fs))
		for i, f := range fs {
			b, _ := hex.DecodeString(f.Hex)
			e[i] = "(" + coqlit.N(uint64(f.File)) + ", " + coqlit.Bytes(string(b)) + ")"
		}
		return coqlit.List(e)
	}
	ob, _ := hex.DecodeString(o.Out)
	eb, _ := hex.DecodeString(o.Err)
	kind := "0"
	if o.Timeout {
		kind = "3"
	} else if !o.Ok {
		kind = "1"
	}
	coq := coqlit.Record("c_stages", coqlit.List(stages), "c_files", fl(c.Files),
		"c_obs", coqlit.Record("o_kind", kind, "o_out", coqlit.Bytes(string(ob)), "o_err", coqlit.Bytes(string(eb)),
			"o_complaints", coqlit.Nat(o.Complaints), "o_files", fl(o.Files), "o_pipes", fl(o.Pipes)))
	class := fmt.Sprintf("n%d", len(c.Stages))
	if nred > 0 {
		class += "/redir"
	}
	if nfile > 0 {
		class += "/file"
	}
	for _, st := range c.Stages {
		if st.Link == "qpipe" {
			class += "/qpipe"
			break
		}
	}
	if len(usedPipes) > 0 {
		class += "/named"
	}
	if c.Wrap != "" {
		class += "/" + c.Wrap
	}
	return Result{Obs: o, Coq: coq, Nontrivial: nred > 0 || nfile > 0, Class: class}
}

// ---- generation ----

var c33Redirs = []string{"out", "err", "null", "!out", "!err", "!null"}

func c33RandBytes(r *rand.Rand, tag byte) string {
	n := 0
	switch r.Intn(6) {
	case 0:
		n = 0
	case 1:
		n = 1
	case 2:
		n = 2 + r.Intn(6)
	case 3:
		n = 8 + r.Intn(40)
	case 4:
		n = r.Intn(300)
	default:
		n = 1 + r.Intn(4)
	}
	b := make([]byte, n)
	for i := range b {
		switch r.Intn(4) {
		case 0:
			b[i] = byte(r.Intn(256))
		case 1:
			b[i] = "\n\r\x00\xff\xc3 <>|;"[r.Intn(10)]
		default:
			b[i] = tag + byte(r.Intn(4))
		}
	}
	return hex.EncodeToString(b)
}

func c33RandRedirs(r *rand.Rand) []string {
	var rs []string
	switch r.Intn(10) {
	case 0:
		return nil
	case 1, 2, 3: // one
		rs = append(rs, c33Redirs[r.Intn(6)])
	case 4, 5, 6, 7: // one for stdout, one for stderr, either order
		a, b := c33Redirs[r.Intn(3)], c33Redirs[3+r.Intn(3)]
		if r.Intn(2) == 0 {
			a, b = b, a
		}
		rs = append(rs, a, b)
	default: // duplicates: the first of each class wins
		n := 2 + r.Intn(3)
		for i := 0; i < n; i++ {
			rs = append(rs, c33Redirs[r.Intn(6)])
		}
	}
	for i := range rs { // now and then a user-named pipe instead
		if r.Intn(6) == 0 {
			bang := ""
			if strings.HasPrefix(rs[i], "!") {
				bang = "!"
			}
			rs[i] = fmt.Sprintf("%sp%d", bang, r.Intn(3))
		}
	}
	return rs
}

func c33RandCase(r *rand.Rand) c33Case {
	var c c33Case
	n := 1 + r.Intn(4)
	if r.Intn(3) == 0 {
		n = 1
	}
	for i := 0; i < n; i++ {
		s := c33Stage{Act: "emit", Link: "semi"}
		if i+1 < n && r.Intn(2) == 0 {
			s.Link = "pipe"
			if r.Intn(5) == 0 {
				s.Link = "qpipe"
			}
		}
		k := r.Intn(10)
		switch {
		case k < 7 || (i == 0 && k < 9):
			s.O, s.E = c33RandBytes(r, byte('a'+4*i)), c33RandBytes(r, byte('A'+4*i))
			s.Redirs = c33RandRedirs(r)
		case k%2 == 0:
			s.Act, s.File = "trunc", r.Intn(3)
			if r.Intn(4) == 0 {
				s.Redirs = c33RandRedirs(r)
			}
		default:
			s.Act, s.File = "append", r.Intn(3)
			if r.Intn(4) == 0 {
				s.Redirs = c33RandRedirs(r)
			}
		}
		c.Stages = append(c.Stages, s)
	}
	for f := 0; f < 3; f++ {
		if r.Intn(2) == 0 {
			c.Files = append(c.Files, c33File{f, c33RandBytes(r, '0')})
		}
	}
	if r.Intn(4) == 0 {
		c.Wrap = "func"
	}
	c.Mk = r.Intn(2) == 0
	return c
}

// c33Firsts: the redirection that applies to stdout / stderr (the first of each class).
func c33Firsts(rs []string) (out, er string) {
	for _, r := range rs {
		if strings.HasPrefix(r, "!") {
			if er == "" {
				er = r
			}
		} else if out == "" {
			out = r
		}
	}
	return
}

// c33FeedsNext: does the command write into the stdin of the command after its pipe?
func c33FeedsNext(s c33Stage) bool {
	out, er := c33Firsts(s.Redirs)
	switch s.Link {
	case "pipe": // stdout is piped; `<!out>` joins stderr to it
		return out == "" || out == "out" || er == "!out"
	case "qpipe": // stderr is piped
		return er == "" || er == "!err"
	}
	return false
}

// c33Derace keeps the block's output order deterministic.  A command after a pipe
// normally starts writing only when the command before it has finished (c33emit reads
// all of its stdin first).  When the command before it sends the piped stream somewhere
// else (<err>, <null>, a named pipe, `<!out>` before `?`) that stdin is closed at once and
// both run side by side, so the commands further down that pipeline are made silent.
func c33Derace(c c33Case) c33Case {
	racing := false
	inChain := map[int]bool{} // `>`/`>>` warn on stderr when a file is named twice in one pipeline: keep them distinct
	for i := range c.Stages {
		s := &c.Stages[i]
		if s.Act != "emit" {
			for inChain[s.File] {
				s.File = (s.File + 1) % 8
			}
			inChain[s.File] = true
		}
		if racing && s.Act == "emit" {
			s.O, s.E = "", ""
		}
		if s.Link == "qpipe" {
			// not modelled: ` ? >> file` does not parse; a "specified multiple times" complaint of a
			// `?`-linked command is written into the pipe (its stderr) rather than to the block's stderr
			nOut, nErr := 0, 0
			for _, r := range s.Redirs {
				if strings.HasPrefix(r, "!") {
					nErr++
				} else {
					nOut++
				}
			}
			if nOut > 1 || nErr > 1 || (i+1 < len(c.Stages) && c.Stages[i+1].Act != "emit") {
				s.Link = "pipe"
			}
		}
		if s.Link == "semi" {
			inChain = map[int]bool{}
			racing = false
			continue
		}
		if !c33FeedsNext(*s) {
			racing = true
		}
	}
	return c
}

var c33Tokens = []string{"out", "err", "null", "!out", "!err", "!null", "p0", "!p0", "p1", "!p1"}

func (c33) Gen(seed int64, tier string, emit0 func(any)) {
	emit := func(x any) {
		if c, ok := x.(c33Case); ok {
			emit0(c33Derace(c))
			return
		}
		emit0(x)
	}
	hx := func(s string) string { return hex.EncodeToString([]byte(s)) }
	O, E := hx("out-bytes\n"), hx("ERR-BYTES\n")
	other := c33Stage{Act: "emit", O: hx("2nd-out\n"), E: hx("2ND-ERR\n"), Link: "semi"}
	// exhaustive: every redirection list of length 0, 1, 2 (10 tokens incl. two user-named pipes, all ordered
	// pairs) and 3 (the six standard tokens, all ordered triples) on one command in every position:
	// alone, before `;`, after `;`, before `|`, before ` ? `, after `|`, after ` ? `
	var lists [][]string
	lists = append(lists, nil)
	for _, a := range c33Tokens {
		lists = append(lists, []string{a})
		for _, b := range c33Tokens {
			lists = append(lists, []string{a, b})
		}
	}
	for _, a := range c33Tokens[:6] {
		for _, b := range c33Tokens[:6] {
			for _, c := range c33Tokens[:6] {
				lists = append(lists, []string{a, b, c})
			}
		}
	}
	for _, t := range [][]string{{"err", "p0", "!out"}, {"p0", "!p0", "err"}, {"!p1", "p1", "!out"}, {"p0", "p1", "!p0"}, {"!p0", "!out", "p0"}, {"null", "!p0", "p0"}} {
		lists = append(lists, t)
	}
	for li, rs := range lists {
		st := c33Stage{Act: "emit", O: O, E: E, Redirs: rs, Link: "semi"}
		sp, sq, op, oq := st, st, other, other
		sp.Link, sq.Link, op.Link, oq.Link = "pipe", "qpipe", "pipe", "qpipe"
		wrap := ""
		if li%5 == 4 {
			wrap = "func"
		}
		emit(c33Case{Stages: []c33Stage{st}, Wrap: wrap, Mk: li%2 == 1})
		emit(c33Case{Stages: []c33Stage{sp, other}, Wrap: wrap})
		emit(c33Case{Stages: []c33Stage{sq, other}, Wrap: wrap})
		emit(c33Case{Stages: []c33Stage{op, st}, Wrap: wrap})
		if len(rs) <= 2 {
			emit(c33Case{Stages: []c33Stage{st, other}, Wrap: wrap})
			emit(c33Case{Stages: []c33Stage{other, st}, Wrap: wrap})
			emit(c33Case{Stages: []c33Stage{oq, st}, Wrap: wrap})
			// the command after this one has a ` ? ` pipe of its own
			emit(c33Case{Stages: []c33Stage{st, oq, other}, Wrap: wrap})
			emit(c33Case{Stages: []c33Stage{sp, oq, other}, Wrap: wrap})
		}
		if len(rs) <= 1 || li%7 == 0 {
			emit(c33Case{Stages: []c33Stage{sp, {Act: "trunc", File: 0, Link: "semi"}}, Files: []c33File{{0, "6f6c64"}}, Wrap: wrap})
			emit(c33Case{Stages: []c33Stage{sq, {Act: "append", File: 0, Link: "semi"}}, Files: []c33File{{0, "6f6c64"}}, Wrap: wrap})
		}
	}
	r := rand.New(rand.NewSource(seed))
	n := 700
	if tier == "thorough" {
		n = 5000
	}
	for i := 0; i < n; i++ {
		emit(c33RandCase(r))
	}
	// file contents of any length
	m := 24
	if tier == "thorough" {
		m = 60
	}
	for i := 0; i < m; i++ {
		big := make([]byte, r.Intn(6000))
		r.Read(big)
		old := make([]byte, r.Intn(2000))
		r.Read(old)
		act := []string{"trunc", "append"}[i%2]
		c := c33Case{Stages: []c33Stage{{Act: "emit", O: hex.EncodeToString(big), E: c33RandBytes(r, 'E'), Link: "pipe"}, {Act: act, File: 1, Link: "semi"}}}
		if i%3 != 0 {
			c.Files = []c33File{{1, hex.EncodeToString(old)}}
		}
		emit(c)
	}
}

// Shrink: drop a command, drop a redirection, shorten the bytes.
func (c33) Shrink(raw json.RawMessage) []any {
	var c c33Case
	if json.Unmarshal(raw, &c) != nil {
		return nil
	}
	var out []any
	clone := func() c33Case {
		var d c33Case
		b, _ := json.Marshal(c)
		json.Unmarshal(b, &d)
		return d
	}
	if c.Wrap != "" {
		d := clone()
		d.Wrap = ""
		out = append(out, d)
	}
	for i := range c.Stages {
		if len(c.Stages) > 1 {
			d := clone()
			d.Stages = append(d.Stages[:i], d.Stages[i+1:]...)
			d.Stages[len(d.Stages)-1].Link = "semi"
			out = append(out, d)
		}
		for j := range c.Stages[i].Redirs {
			d := clone()
			d.Stages[i].Redirs = append(d.Stages[i].Redirs[:j], d.Stages[i].Redirs[j+1:]...)
			out = append(out, d)
		}
		if len(c.Stages[i].O) > 4 {
			d := clone()
			d.Stages[i].O = c.Stages[i].O[:2*(len(c.Stages[i].O)/4)]
			out = append(out, d)
		}
		if len(c.Stages[i].E) > 4 {
			d := clone()
			d.Stages[i].E = c.Stages[i].E[:2*(len(c.Stages[i].E)/4)]
			out = append(out, d)
		}
	}
	for i := range c.Files {
		d := clone()
		d.Files = append(d.Files[:i], d.Files[i+1:]...)
		out = append(out, d)
	}
	return out
}
