//go:build prop_c14 || prop_all

package main

// C14 — format preserves structured data between formats.
// A case is a JSON document and a target format; the document is fed to
//   tout json $doc -> format X                (intermediate text, observed)
//   tout json $doc -> format X -> format json (result, parsed as JSON)
// in-process, with a timeout.

import (
	"encoding/json"
	"fmt"
	"math/rand"
	"time"

	"github.com/lmorg/murex/lang"
	"github.com/lmorg/murex/lang/ref"
	"github.com/lmorg/murex/lang/types"

	"verifharness/coqlit"
)

type c14Case struct {
	Fmt string `json:"fmt"` // csv|jsonl|yaml|toml
	Doc any    `json:"doc"`
}

type c14Obs struct {
	Kind   int    `json:"kind"` // 0 ran, 1 an error was reported, 2 crash/hang
	MidOk  bool   `json:"mid_ok"`
	Mid    string `json:"mid"`
	Out    string `json:"out"`
	Parsed bool   `json:"parsed"`
}

type c14 struct{}

func init() { register("C14", c14{}) }

func c14Pipe(doc string, block string) (stdout string, ok bool) {
	initMurex()
	fork := lang.ShellProcess.Fork(lang.F_FUNCTION | lang.F_NEW_MODULE | lang.F_NO_STDIN | lang.F_CREATE_STDOUT | lang.F_CREATE_STDERR)
	fork.Name.Set("verif")
	fork.FileRef = &ref.File{Source: &ref.Source{Module: "murex/verif-c14"}}
	if err := fork.Variables.Set(fork.Process, "c14in", doc, types.String); err != nil {
		return "", false
	}
	n, err := fork.Execute([]rune(block))
	b, _ := fork.Stdout.ReadAll()
	e, _ := fork.Stderr.ReadAll()
	return string(b), n == 0 && err == nil && len(e) == 0
}

// c14Both runs the two pipelines with a timeout: murex's crash handler recovers
// a panic inside a builtin and the pipeline then never finishes; that is
// observed as kind 2 (the goroutines are abandoned).
func c14Both(format string, doc string) c14Obs {
	ch := make(chan c14Obs, 1)
	go func() {
		var o c14Obs
		mid, ok1 := c14Pipe(doc, "tout json $c14in -> format "+format)
		out, ok2 := c14Pipe(doc, "tout json $c14in -> format "+format+" -> format json")
		o.Mid, o.MidOk, o.Out = mid, ok1, out
		if !(ok1 && ok2) {
			o.Kind = 1
		}
		ch <- o
	}()
	select {
	case o := <-ch:
		return o
	case <-time.After(30 * time.Second):
		return c14Obs{Kind: 2}
	}
}

func (c14) Run(raw json.RawMessage) Result {
	var c c14Case
	if err := json.Unmarshal(raw, &c); err != nil {
		die("C14: bad case: %v", err)
	}
	b, _ := json.Marshal(c.Doc)
	o := c14Both(c.Fmt, string(b))
	var pv any
	res := "None"
	if o.Kind != 2 && json.Unmarshal([]byte(o.Out), &pv) == nil {
		o.Parsed = true
		res = "(Some " + c12Coq(pv) + ")"
	}
	var fm string
	switch c.Fmt {
	case "csv":
		fm = "FCsv"
	case "jsonl":
		fm = "FJsonl"
	case "yaml":
		fm = "FYaml"
	case "toml":
		fm = "FToml"
	default:
		die("C14: bad format %q", c.Fmt)
	}
	var doc any
	_ = json.Unmarshal(b, &doc)
	coq := coqlit.Record("c_fmt", fm, "c_doc", c12Coq(doc),
		"c_kind", coqlit.N(uint64(o.Kind)), "c_mid_ok", coqlit.Bool(o.MidOk),
		"c_mid", coqlit.Bytes(o.Mid), "c_out", res)
	return Result{Obs: o, Coq: coq, Nontrivial: c14Size(doc) >= 3, Class: c.Fmt + "/" + []string{"ran", "error", "crash"}[o.Kind]}
}

func c14Size(v any) int {
	switch t := v.(type) {
	case []any:
		n := 1
		for _, x := range t {
			n += c14Size(x)
		}
		return n
	case map[string]any:
		n := 1
		for _, x := range t {
			n += c14Size(x)
		}
		return n
	}
	return 1
}

// ---------- generators ----------

var c14Hostile = []string{"", "a", "b", "x y", "#", "#y", "# c", " 2", "  lead", "trail ", "\tt", "a,b", ",", "\"", "\"q\"", "a\"b", "l1\nl2", "\n", "yes", "no", "null", "~", "true", "false", "1e3", "0x1f", "1", "-1", "1.0", "010", "{}", "[]", "[a]", "{a}", "a: b", "- x", "k = v", "'s'", "\\", "\\.", "é", "日本", "=", "|", ">", "%", "@", "&a", "*a", "!t", "?", "2001-01-01", "12:30", ".5", "+1", "inf", "nan", "a#b", "a #b", "\"\"", "null ", "Null", "NO", "on", "off", "y", "n"}

func c14Str(r *rand.Rand) string {
	if r.Intn(10) < 7 {
		return c14Hostile[r.Intn(len(c14Hostile))]
	}
	al := []rune("ab #\",\n '{}[]:-=~\\tq0.é")
	n := r.Intn(6)
	s := make([]rune, n)
	for i := range s {
		s[i] = al[r.Intn(len(al))]
	}
	return string(s)
}

var c14Numbers = []float64{0, 1, -1, 2, 10, 1.5, -0.25, 3.14159, 1000000, 123456789012, 0.001, 1e-7, 1e20, 255, -40}

func c14Key(r *rand.Rand) string {
	if r.Intn(10) < 6 {
		return []string{"a", "b", "c", "key", "k1", "x y", "A", "id", "name"}[r.Intn(9)]
	}
	return c14Str(r)
}

func c14Doc(r *rand.Rand, depth int, nulls bool) any {
	if depth <= 0 || r.Intn(10) < 4 {
		switch r.Intn(10) {
		case 0:
			if nulls {
				return nil
			}
			return "n"
		case 1, 2:
			return r.Intn(2) == 0
		case 3, 4, 5:
			return c14Numbers[r.Intn(len(c14Numbers))]
		default:
			return c14Str(r)
		}
	}
	n := r.Intn(4)
	if r.Intn(2) == 0 {
		a := make([]any, n)
		for i := range a {
			a[i] = c14Doc(r, depth-1, nulls)
		}
		return a
	}
	m := map[string]any{}
	for i := 0; i < n; i++ {
		m[c14Key(r)] = c14Doc(r, depth-1, nulls)
	}
	return m
}

func c14Table(r *rand.Rand) any {
	ncol := 1 + r.Intn(4)
	nrow := 1 + r.Intn(4)
	keys := map[string]bool{}
	cols := []string{}
	for len(cols) < ncol {
		k := c14Key(r)
		if !keys[k] {
			keys[k] = true
			cols = append(cols, k)
		}
	}
	rows := make([]any, nrow)
	for i := range rows {
		m := map[string]any{}
		for _, k := range cols {
			m[k] = c14Str(r)
		}
		rows[i] = m
	}
	if r.Intn(8) == 0 {
		// a data row that repeats the heading row
		m := map[string]any{}
		for _, k := range cols {
			m[k] = k
		}
		rows[r.Intn(nrow)] = m
	}
	return rows
}

func c14J(s string) any {
	var v any
	if err := json.Unmarshal([]byte(s), &v); err != nil {
		panic(fmt.Sprint(err, s))
	}
	return v
}

func (c14) Gen(seed int64, tier string, emit func(any)) {
	// design-phase and build-phase witnesses (also in corpus/C14)
	emit(c14Case{"csv", c14J(`[{"a":"#y","b":" 2"}]`)})
	emit(c14Case{"csv", c14J(`[{"a":"x","b":"1"},{"a":"#y","b":"2"},{"a":"z","b":"3"}]`)})
	emit(c14Case{"csv", c14J(`[{"a":""},{"a":"x"},{"a":""}]`)})
	emit(c14Case{"csv", c14J(`[]`)})
	emit(c14Case{"csv", c14J(`[{"a":"1","b":"2"},{"a":"3","b":"4"}]`)})
	emit(c14Case{"jsonl", c14J(`[[1,2],[3,4]]`)})
	emit(c14Case{"jsonl", c14J(`[1,"x",{"a":null},[true]]`)})
	emit(c14Case{"jsonl", c14J(`[1,null]`)})
	emit(c14Case{"jsonl", c14J(`[]`)})
	emit(c14Case{"yaml", c14J(`{"a":[1,2,{"b":"yes"}],"c":"~","d":null,"e":1.5}`)})
	emit(c14Case{"toml", c14J(`{"a":[1,2,{"b":"yes"}],"c":"~","e":1.5}`)})
	// every hostile string as a cell / element / value
	for _, s := range c14Hostile {
		emit(c14Case{"csv", []any{map[string]any{"a": "x", "b": s}}})
		emit(c14Case{"csv", []any{map[string]any{"a": s, "b": "x"}}})
		emit(c14Case{"csv", []any{map[string]any{s: "v", "zz": "w"}}})
		emit(c14Case{"jsonl", []any{s, map[string]any{"k": s}}})
		emit(c14Case{"yaml", map[string]any{"k": s, "l": []any{s}}})
		emit(c14Case{"yaml", map[string]any{s: "v"}})
		emit(c14Case{"toml", map[string]any{"k": s, "l": []any{s}}})
		emit(c14Case{"toml", map[string]any{s: "v"}})
	}
	r := rand.New(rand.NewSource(seed))
	n := 150
	if tier == "thorough" {
		n = 3000
	}
	for i := 0; i < n; i++ {
		emit(c14Case{"csv", c14Table(r)})
		emit(c14Case{"csv", c14Table(r)})
		// jsonl: arrays
		k := r.Intn(5)
		a := make([]any, k)
		for j := range a {
			a[j] = c14Doc(r, 3, true)
		}
		emit(c14Case{"jsonl", a})
		emit(c14Case{"yaml", c14Doc(r, 4, true)})
		// toml: maps without null
		m := map[string]any{}
		for j := r.Intn(4); j >= 0; j-- {
			m[c14Key(r)] = c14Doc(r, 3, false)
		}
		emit(c14Case{"toml", m})
	}
}
