//go:build prop_c19 || prop_all

package main

// C19 — Murex code never crashes or hangs the shell.
//
// Generated programs over the builtin vocabulary with malformed / adversarial
// arguments and stdin, each run in a CHILD process (batches; the child is
// restarted after a crash or hang) with a per-program timeout. Observation
// kind: 0 ok (incl. clean errors), 1 internal panic reported ("panic caught" /
// "Murex has crashed"), 2 the process died, 3 hang (timeout).

import (
	"bufio"
	"encoding/json"
	"fmt"
	"io"
	"math/rand"
	"os"
	"os/exec"
	"runtime"
	"strings"
	"syscall"
	"time"

	"verifharness/coqlit"
)

type c19Case struct {
	Tmpl string `json:"tmpl"` // generator template (distribution bucket)
	Prog string `json:"prog"`
}

type c19Obs struct {
	Kind   int    `json:"kind"`
	Exit   int    `json:"exit"`
	Stderr string `json:"stderr,omitempty"` // first 300 bytes, only when Kind != 0
	// Unconfirmed: a death (2) or hang (3) of the child that did not reproduce, neither alone nor after
	// the preceding programs; recorded, not reported (machine load / leftovers of an earlier program)
	Unconfirmed int `json:"unconfirmed,omitempty"`
}

type c19 struct{}

func init() { register("C19", c19{}) }

const c19Timeout = 8 * time.Second

// ---------------------------------------------------------------- generator

var c19Docs = []string{
	`tout json [1,2,3]`, `tout json []`, `tout json {"a":1,"b":[1,2,{"c":null}]}`, `tout json {}`,
	`tout json [[1,2],[3,4]]`, `tout json "str"`, `tout json null`, `tout json [`, `tout json {"a":`,
	`tout yaml "a: [1, 2]"`, `tout jsonl "[1]\n{\"a\":2}\n"`, `tout csv "a,b\n1,2\n3"`, `tout str "x\ny\n\nz"`,
	`tout str ""`, `tout int abc`, `tout num 1.5.2`, `tout bool maybe`, `tout bogus xyz`, `tout * ""`,
	`a [1..5]`, `ja [a..e]`, `out hello world`, `out`, `%[1,2,3]`, `%{a:1,b:[2,3]}`, `%[]`, `%{}`,
	`tout toml "a = 1\n[b]\nc = 2"`, `tout json {"Flags":{"--x":"str"}}`, `tout json [1,"",null,{}]`,
}

var c19Nums = []string{"0", "1", "-1", "2", "-2", "3", "-3", "-4", "-5", "5", "7", "-7", "10", "-10", "100", "-100", "1.5", "-0", "00", "007",
	"99999999999999999999", "-99999999999999999999", "2147483648", "9223372036854775807", "-9223372036854775808", "1e3", "0x10", "NaN", "Inf"}

var c19Toks = []string{"''", `""`, "a", "b", "A", "x y", "'x y'", "--", "-", "--x", "-x", "--help", "-a", "--str", "--flag=1", "[", "]", "[[", "]]", "{", "}",
	"{}", "{ out x }", "{ [ }", "(", ")", "()", "%[", "%{", "%(", "null", "true", "false", "str", "int", "num", "bool", "json", "yaml", "bogus", "*",
	"$undefined", "@undefined", "$", "@", "~", "\\", "\\n", "é", "日本", "\u0000", "/", "//", ".", "..", "...", "a.b.c", "/a/b", ".a", "a.", "[1..3]", "[3..1]", "[..]", "[a..]", "[..z]", "[1..2..3]",
	"m/(/", "s/x", "f/", "m/a/", "s/a/b/", "s/(/", "f/a", "x/a/", ":", "::", "a:b", "=", "==", "=>", "->", "|", "||", "&&", ";", "#", "<", ">", "<out>", "<!out>", "<err>", "<null>", "<bogus>", "<>",
	strings.Repeat("A", 300), strings.Repeat("9", 40)}

var c19Methods = []string{"[", "[[", "![", "@[", "addheading", "alter", "alter -m", "alter -s", "append", "prepend", "base64", "!base64", "cast", "format", "count",
	"count --unique", "count --total", "count --sum", "count --bogus", "escape", "!escape", "eschtml", "!eschtml", "escurl", "!escurl", "esccli", "foreach", "foreach --step", "foreach --parallel", "foreach --jmap", "formap", "get-type", "is-null", "jsplit",
	"left", "right", "prefix", "suffix", "list.case", "map", "match", "!match", "regexp", "!regexp", "rx", "!rx", "mjoin", "msort", "mtac", "pretty", "round", "round --down", "round --up", "select",
	"struct-keys", "tabulate", "tabulate --map", "tabulate --joiner", "tread", "set", "let", "global", "2darray", "gz", "!gz", "bz2", "!bz2", "datetime", "datetime --in", "datetime --out", "printf",
	"debug", "null", "pt", "summary", "murex-parser", "ta", "a", "ja", "switch", "if", "!if", "and", "or", "!and", "!or", "catch", "!catch", "exitnum", "time", "type", "which", "!", "~>", ">>x", "|> x", "g", "!g", "f", "rx", "runtime", "args"}

var c19Funcs = []string{"a", "ja", "ta", "2darray", "alias", "!alias", "args", "autocomplete get", "autocomplete set", "autocomplete cache-dynamic", "cast", "config get", "config set", "config default", "config define", "config eval", "!config",
	"count", "datetime", "debug", "err", "out", "tout", "escape", "esccli", "export", "!export", "unset", "set", "!set", "global", "!global", "let", "function", "!function", "private", "!private", "method define", "fid-list", "for", "foreach", "formap", "format",
	"get-type", "if", "!if", "is-null", "jsplit", "left", "right", "prefix", "suffix", "list.case", "man-get-flags", "man-summary", "map", "match", "mjoin", "msort", "mtac", "murex-parser", "null", "os", "cpuarch", "cpucount", "pipe", "!pipe",
	"pretty", "printf", "pt", "regexp", "return", "break", "continue", "round", "runmode", "runtime", "select", "struct-keys", "summary", "!summary", "switch", "tabulate", "test", "test define", "test unit", "test run", "test config", "!test", "tread", "try", "trypipe",
	"tryerr", "trypipeerr", "catch", "type", "unsafe", "version", "which", "exitnum", "true", "false", "!", "and", "or", "event", "!event", "bexists", "history", "murex-docs", "struct-keys", "alter", "append", "prepend", "[", "[[", "@[", "![", "=", "~>", "exec", "fexec"}

func c19Pick(r *rand.Rand, l []string) string { return l[r.Intn(len(l))] }

func c19Args(r *rand.Rand, max int) string {
	n := r.Intn(max + 1)
	parts := make([]string, 0, n)
	for i := 0; i < n; i++ {
		if r.Intn(3) == 0 {
			parts = append(parts, c19Pick(r, c19Nums))
		} else {
			parts = append(parts, c19Pick(r, c19Toks))
		}
	}
	return strings.Join(parts, " ")
}

func c19Index(r *rand.Rand) string {
	switch r.Intn(6) {
	case 0:
		return "[" + c19Pick(r, c19Nums) + "]"
	case 1:
		return "[" + c19Pick(r, c19Nums) + " " + c19Pick(r, c19Nums) + "]"
	case 2:
		return "[[" + c19Pick(r, []string{"/", ".", "", "/a", ".a"}) + c19Pick(r, c19Nums) + "]]"
	case 3:
		return "[" + c19Pick(r, c19Nums) + ".." + c19Pick(r, c19Nums) + "]" + c19Pick(r, []string{"", "e", "n", "r", "s", "b", "8", "x"})
	case 4:
		return "[" + c19Pick(r, c19Toks) + "]"
	default:
		return "[ *" + c19Pick(r, c19Nums) + " *" + c19Pick(r, c19Nums) + " ]"
	}
}

// corpus: design-phase witnesses and adversarial classics; always emitted first
var c19Corpus = []c19Case{
	{"corpus", `tout json [1,2,3] -> [-5]`},
	{"corpus", `tout json [1,2,3] -> [-4]`},
	{"corpus", `tout json [1,2,3] -> [3]`},
	{"corpus", `tout json [1,2,3] -> [[/-9]]`},
	{"corpus", `function c19f { args a %{Flags:{"--x":"str"}} }; c19f --y`},
	{"corpus", `function c19g { args a %{Flags:{"-a":"-a"}} }; c19g -a`},
	{"corpus", `function c19h { args a %{Flags:{"-a":"-b","-b":"-a"}} }; c19h -a`},
	{"corpus", `pipe c19p; !pipe c19p; !pipe c19p`},
	{"corpus", `pipe c19q; !pipe c19q; pipe c19q; !pipe c19q`},
	{"corpus", `!pipe c19nosuch`},
	{"corpus", `pipe c19r; pipe c19r`},
	{"corpus", `!pipe null`},
	{"corpus", `a [1..3] -> [9..2]`},
	{"corpus", `a [1..3] -> [-1..-9]`},
	{"corpus", `tout json {"a":[1,2,3]} -> set c19u; $c19u.a.9 = "x"; out $c19u`},
	{"corpus", `c19v = %{a:{q:1}}; $c19v.a.b.c = "x"; out $c19v`},
	{"corpus", `out a -> alter "" 100`},
	{"corpus", `tout json {"a":1} -> alter -s "" 5`},
	{"corpus", `a [1..3] -> foreach --step -1 i { out $i }`},
	{"corpus", `round --down 5 1e-1`},
	{"corpus", `round --up 5 1e-1`},
	{"corpus", `tout generic "a b\nc d\ne f\n" -> [ *3 *0 ]`},
	{"corpus", `tout generic "a b\nc d\ne f\n" -> ![ *0 ]`},
	{"corpus", `tout csv "a,b\n1,2\n3" -> [ *99999999999 *7 ]`},
	{"corpus", `tout csv "a,b\n1,2\n3" -> [ *9223372036854775807 *007 ]`},
	{"corpus", `tout csv "a,b\n1,2\n3" -> ![ *99999999999 *7 ]`},
	{"corpus", `tout jsonl "[1,2]\n[3,4]" -> [ *9 *1 ]`},
	{"corpus", `tout jsonl -> [ *9223372036854775807 *1 ]`},
	{"corpus", `tout jsonc "[1,2][3,4]" -> [ *9 *1 ]`},
	{"corpus", `tout generic "a b c\n1 2 3\n\n4 5 6" -> [ b ]`},
	{"corpus", `tout generic "a b c\n1 2 3\n4\n5 6 7" -> [ b ]`},
	{"corpus", `tout csv "a,b,c\n1,2,3\n4,5\n6,7,8" -> [ c ]`},
	{"corpus", `tout csv "a,b,c\n1,2,3\n\n6,7,8" -> [ b a ]`},
	{"corpus", `tout jsonl "[\"a\",\"b\"]\n[\"1\"]\n[\"2\",\"3\"]" -> [ b ]`},
	{"corpus", `history`},
	{"corpus", `out -> regexp 007`},
	{"corpus", `murex-docs 100`},
	{"corpus", `runmode foo bar`},
	{"corpus", `function c19rm { runmode: bad }; c19rm`},
	{"corpus", `try { runmode try; out x }`},
	{"corpus", `out (1/0)`},
	{"corpus", `out ${ out ${ out ${ err x } } }`},
	{"corpus", `function c19i (a: int, b: bogus [`},
	{"corpus", `function c19j (!a: int [x]) { out $a }; c19j`},
	{"corpus", `tout json [1,2] -> foreach { break nosuchblock }`},
	{"corpus", `continue`}, {"corpus", `break`}, {"corpus", `return abc`},
	{"corpus", `%[1..] `}, {"corpus", `%{a:}`}, {"corpus", `%[,]`}, {"corpus", `%(`}, {"corpus", `'`}, {"corpus", `"`}, {"corpus", `{`}, {"corpus", `}`},
	{"corpus", `out $`}, {"corpus", `out @`}, {"corpus", `out ${`}, {"corpus", `out $[`}, {"corpus", `out a &`}, {"corpus", `out a -`}, {"corpus", `-> out`}, {"corpus", `| out`}, {"corpus", `out x |`}, {"corpus", `out x ->`}, {"corpus", `out x =>`},
	{"corpus", `runmode bogus function`}, {"corpus", `config set bogus bogus bogus`}, {"corpus", `config get shell`}, {"corpus", `switch { case }`}, {"corpus", `if { } { } { } { }`},
	{"corpus", `test unit function c19k %{StdoutRegex:"("}; function c19k { out x }; test run c19k`},
	{"corpus", `alias c19a=c19a; c19a`}, {"corpus", `alias c19b=c19c; alias c19c=c19b; c19b`},
	{"corpus", `tout json [1,2,3] -> [ `}, {"corpus", `tout json [1,2,3] -> [] `}, {"corpus", `tout json [1,2,3] -> [[]]`},
}

func (c19) Gen(seed int64, tier string, emit func(any)) {
	for _, c := range c19Corpus {
		emit(c)
	}
	r := rand.New(rand.NewSource(seed))
	n := 500
	if tier == "thorough" {
		n = 12000
	}
	for i := 0; i < n; i++ {
		var c c19Case
		switch k := r.Intn(10); {
		case k < 4: // producer -> method args [-> method args]
			p := c19Pick(r, c19Docs) + " -> " + c19Pick(r, c19Methods) + " " + c19Args(r, 3)
			if r.Intn(3) == 0 {
				p += " -> " + c19Pick(r, c19Methods) + " " + c19Args(r, 2)
			}
			c = c19Case{"pipe-method", p}
		case k < 6: // index / element / range with adversarial numbers
			c = c19Case{"index", c19Pick(r, c19Docs) + " -> " + c19Index(r)}
		case k < 8: // function with adversarial arguments
			c = c19Case{"func-args", c19Pick(r, c19Funcs) + " " + c19Args(r, 4)}
		case k < 9: // args builtin with random flag tables
			flags := []string{`"--x":"str"`, `"--n":"int"`, `"-b":"bool"`, `"-a":"--x"`, `"-a":"-a"`, `"-c":"-d","-d":"-c"`, `"--z":"bogus"`, `"":"str"`}
			ft := c19Pick(r, flags)
			if r.Intn(2) == 0 {
				ft += "," + c19Pick(r, flags)
			}
			opts := c19Pick(r, []string{"", `,AllowAdditional:true`, `,StrictFlagPlacement:true`, `,IgnoreInvalidFlags:true`})
			c = c19Case{"args", fmt.Sprintf(`function c19fa { args v %%{Flags:{%s}%s}; out $v }; c19fa %s`, ft, opts, c19Args(r, 4))}
		case k == 9 && r.Intn(2) == 0: // ragged tables indexed by heading name, column letter or row
			types := []string{"generic", "csv", "jsonl", "str"}
			ty := c19Pick(r, types)
			rows := 2 + r.Intn(4)
			var lines []string
			sep := " "
			if ty == "csv" {
				sep = ","
			}
			heads := []string{"a", "b", "c", "d"}
			width := 2 + r.Intn(3)
			for i := 0; i < rows; i++ {
				w := width
				if i > 0 {
					w = r.Intn(width + 2) // rows shorter (even empty) or longer than the heading row
				}
				cells := make([]string, w)
				for j := range cells {
					if i == 0 {
						cells[j] = heads[j%len(heads)]
					} else {
						cells[j] = fmt.Sprintf("%d", i*10+j)
					}
				}
				line := strings.Join(cells, sep)
				if ty == "jsonl" {
					q := make([]string, len(cells))
					for j, c := range cells {
						q[j] = `\"` + c + `\"`
					}
					line = "[" + strings.Join(q, ",") + "]"
				}
				lines = append(lines, line)
			}
			var keys []string
			for n := 1 + r.Intn(3); n > 0; n-- {
				switch r.Intn(4) {
				case 0:
					keys = append(keys, "*"+c19Pick(r, []string{"A", "B", "C", "D", "E", "z"}))
				case 1:
					keys = append(keys, "*"+c19Pick(r, c19Nums))
				default:
					keys = append(keys, c19Pick(r, []string{"a", "b", "c", "d", "e", "nosuch"}))
				}
			}
			not := ""
			if r.Intn(5) == 0 {
				not = "!"
			}
			c = c19Case{"ragged-table", fmt.Sprintf(`tout %s "%s" -> %s[ %s ]`, ty, strings.Join(lines, `\n`), not, strings.Join(keys, " "))}
		default: // named pipe sequences
			// (reading a named pipe nobody closes blocks by design, so reads are not generated)
			ops := []string{"pipe c19np", "!pipe c19np", "pipe c19nq", "!pipe c19nq", "out x -> <c19np>", "pipe --file c19np /nonexistent/x", "!pipe null", "runtime --named-pipes -> null"}
			m := 1 + r.Intn(5)
			parts := make([]string, m)
			for j := range parts {
				parts[j] = c19Pick(r, ops)
			}
			c = c19Case{"named-pipes", strings.Join(parts, "; ")}
		}
		emit(c)
	}
}

// ---------------------------------------------------------------- runner

// The parent keeps one child alive and feeds it programs one at a time.
type c19Child struct {
	cmd *exec.Cmd
	in  io.WriteCloser
	out *bufio.Reader
}

var c19Cur *c19Child

func c19Start() *c19Child {
	self, err := os.Executable()
	if err != nil {
		die("C19: %v", err)
	}
	cmd := exec.Command(self, "child", "C19")
	cmd.Env = append(os.Environ(), "MUREX_TEST=1")
	// programs travel on fd 3 so that builtins reading the process' stdin cannot eat the protocol
	pr, pw, err := os.Pipe()
	if err != nil {
		die("C19: %v", err)
	}
	cmd.ExtraFiles = []*os.File{pr}
	var in io.WriteCloser = pw
	out, _ := cmd.StdoutPipe()
	cmd.Stderr = io.Discard
	dir, _ := os.MkdirTemp("", "c19-")
	cmd.Dir = dir
	if err := cmd.Start(); err != nil {
		die("C19: cannot start child: %v", err)
	}
	pr.Close()
	return &c19Child{cmd, in, bufio.NewReaderSize(out, 1<<20)}
}

func (ch *c19Child) kill() {
	ch.cmd.Process.Kill()
	ch.in.Close()
	ch.cmd.Wait()
	os.RemoveAll(ch.cmd.Dir)
}

// c19Recent: the programs most recently sent to the current child (oldest first); used to
// attribute a death of the child to the right program.
var c19Recent []string

// c19RunOnce sends one program to the current child (starting one if needed) and returns
// what happened. After kind 2 or 3 the child has been killed.
func c19RunOnce(prog string) c19Obs {
	if c19Cur == nil {
		c19Cur = c19Start()
		c19Recent = nil
	}
	ch := c19Cur
	wait := 0
	if strings.Contains(prog, "!pipe") {
		wait = 2300 // the delayed close of a named pipe fires 2 s later: attribute a crash to this program
	}
	b, _ := json.Marshal(map[string]any{"prog": prog, "wait_ms": wait})
	var o c19Obs
	type rd struct {
		line string
		err  error
	}
	done := make(chan rd, 1)
	go func() {
		ch.in.Write(append(b, '\n'))
		l, err := ch.out.ReadString('\n')
		done <- rd{l, err}
	}()
	select {
	case x := <-done:
		if x.err != nil || json.Unmarshal([]byte(x.line), &o) != nil {
			// the child died while running this program
			o = c19Obs{Kind: 2}
			ch.kill()
			c19Cur = nil
		}
	case <-time.After(c19Timeout + 5*c19Timeout + 20*time.Second + 15*time.Second): // RunMurex re-examines a timeout once
		o = c19Obs{Kind: 3}
		ch.kill()
		c19Cur = nil
	}
	if o.Kind == 3 && c19Cur != nil {
		// in-child timeout: the program's goroutines may still be stuck; restart for isolation
		ch.kill()
		c19Cur = nil
	}
	if c19Cur != nil {
		c19Recent = append(c19Recent, prog)
		if len(c19Recent) > 12 {
			c19Recent = c19Recent[1:]
		}
	}
	return o
}

func (c19) Run(raw json.RawMessage) Result {
	var c c19Case
	if err := json.Unmarshal(raw, &c); err != nil {
		die("C19: bad case: %v", err)
	}
	window := append([]string{}, c19Recent...)
	o := c19RunOnce(c.Prog)
	if o.Kind == 2 || o.Kind == 3 {
		// Confirm before reporting: (a) the program alone in a fresh child; (b) if that is clean,
		// the recent window followed by the program (a goroutine left behind by an earlier program
		// may be what killed the child). Reported only if it dies / hangs again; otherwise the
		// first observation is kept in the evidence as `unconfirmed` and the case counts as finished.
		first := o.Kind
		o2 := c19RunOnce(c.Prog)
		if o2.Kind == 0 || o2.Kind == 1 {
			if c19Cur != nil {
				c19Cur.kill()
				c19Cur = nil
			}
			o2 = c19Obs{}
			for _, w := range window {
				if r := c19RunOnce(w); r.Kind == 2 || r.Kind == 3 {
					o2 = r
					break
				}
			}
			if o2.Kind == 0 {
				o2 = c19RunOnce(c.Prog)
			}
		}
		o = o2
		if o.Kind == 0 {
			o.Unconfirmed = first
		}
	}
	coq := coqlit.Record("c_prog", coqlit.Bytes(c.Prog), "c_kind", coqlit.N(uint64(o.Kind)))
	return Result{Obs: o, Coq: coq, Nontrivial: o.Exit != 0 || o.Kind != 0, Class: c.Tmpl}
}

// Child: read JSON strings (programs) from stdin, run each, print one obs per line.
func (c19) Child(args []string) {
	// crash.Handler reports on the process' real stderr (fd 2), not on the fork's: capture it
	var errFile *os.File
	var errOff int64
	if f, err := os.CreateTemp("", "c19-stderr-"); err == nil {
		errFile = f
		os.Remove(f.Name())
		syscall.Dup2(int(f.Fd()), 2)
	}
	sc := bufio.NewScanner(os.NewFile(3, "programs"))
	sc.Buffer(make([]byte, 1<<20), 1<<26)
	w := bufio.NewWriter(os.Stdout)
	for sc.Scan() {
		var req struct {
			Prog string `json:"prog"`
			Wait int    `json:"wait_ms"`
		}
		if err := json.Unmarshal(sc.Bytes(), &req); err != nil {
			continue
		}
		r := RunMurex(req.Prog, c19Timeout)
		if req.Wait > 0 {
			time.Sleep(time.Duration(req.Wait) * time.Millisecond)
		}
		o := c19Obs{Exit: r.ExitNum}
		fd2 := ""
		if errFile != nil {
			if st, err := errFile.Stat(); err == nil && st.Size() > errOff {
				buf := make([]byte, st.Size()-errOff)
				errFile.ReadAt(buf, errOff)
				errOff = st.Size()
				fd2 = string(buf)
			}
		}
		all := r.Stderr + r.Stdout + fd2
		switch {
		case strings.Contains(fd2, "Murex has crashed"):
			o.Kind = 1
			r.Stderr = fd2
			if i := strings.Index(fd2, "Error:"); i >= 0 {
				r.Stderr = fd2[i:]
			}
		case r.Timeout:
			o.Kind = 3
			o.Stderr = c19Stacks()
		case strings.Contains(all, "panic caught") || strings.Contains(all, "Murex has crashed") || strings.Contains(all, "runtime error:") || strings.Contains(all, "goroutine "):
			o.Kind = 1
		}
		if o.Kind != 0 && o.Kind != 3 {
			o.Stderr = r.Stderr
			if len(o.Stderr) > 300 {
				o.Stderr = o.Stderr[:300]
			}
		}
		b, _ := json.Marshal(o)
		w.Write(b)
		w.WriteByte('\n')
		w.Flush()
		if o.Kind == 3 {
			// leave: the parent restarts us so a stuck program cannot poison later ones
			time.Sleep(50 * time.Millisecond)
			os.Exit(0)
		}
	}
}

// c19Stacks: where the stuck program is (murex frames only), for triage of hangs.
func c19Stacks() string {
	buf := make([]byte, 1<<20)
	buf = buf[:runtime.Stack(buf, true)]
	var keep []string
	for _, g := range strings.Split(string(buf), "\n\n") {
		if !strings.Contains(g, "lmorg/murex") || strings.Contains(g, "main.RunMurex(") || strings.Contains(g, "c19Stacks") {
			continue
		}
		lines := strings.Split(g, "\n")
		var fr []string
		for _, l := range lines {
			if strings.HasPrefix(l, "github.com/lmorg/murex") {
				fr = append(fr, strings.TrimPrefix(strings.SplitN(l, "(", 2)[0], "github.com/lmorg/murex/"))
			}
		}
		if len(fr) > 6 {
			fr = fr[:6]
		}
		keep = append(keep, lines[0]+" "+strings.Join(fr, " < "))
	}
	out := strings.Join(keep, " || ")
	if len(out) > 1500 {
		out = out[:1500]
	}
	return out
}

func (c19) Shrink(raw json.RawMessage) []any {
	var c c19Case
	if json.Unmarshal(raw, &c) != nil {
		return nil
	}
	var out []any
	// drop pipeline stages / statements, then drop words
	for _, sep := range []string{"; ", " -> "} {
		parts := strings.Split(c.Prog, sep)
		if len(parts) > 1 {
			for i := range parts {
				q := append(append([]string{}, parts[:i]...), parts[i+1:]...)
				out = append(out, c19Case{c.Tmpl, strings.Join(q, sep)})
			}
		}
	}
	words := strings.Fields(c.Prog)
	if len(words) > 1 && len(words) < 30 {
		for i := 1; i < len(words); i++ {
			q := append(append([]string{}, words[:i]...), words[i+1:]...)
			out = append(out, c19Case{c.Tmpl, strings.Join(q, " ")})
		}
	}
	return out
}
