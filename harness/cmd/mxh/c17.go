//go:build prop_c17 || prop_all

package main

// C17 — Range filters select the documented slice.
// Cases: a list of items rendered as str / json / jsonl, piped through the
// real `[start..end]flags` builtin in-process. Observation: kind and the
// output parsed back into a list of items.

import (
	"encoding/json"
	"fmt"
	"math/rand"
	"strconv"
	"strings"
	"time"

	"verifharness/coqlit"
)

type c17Case struct {
	Fmt   string   `json:"fmt"` // str | json | jsonl
	Start string   `json:"start"`
	End   string   `json:"end"`
	Excl  bool     `json:"excl"`
	Items []string `json:"items"` // jsonl: the raw lines
	Kind  string   `json:"kind,omitempty"`  // "" (index) | n | at (`@[`) | s | r
	Flags string   `json:"flags,omitempty"` // any of ! 8 b t
}

type c17Obs struct {
	Class  int      `json:"class"` // 0 ok, 1 clean error, 2 panic caught, 3 timeout, 4 exit 0 but unparsable output
	Items  []string `json:"items"`
	Exit   int      `json:"exit"`
	Stderr string   `json:"stderr,omitempty"`
}

type c17 struct{}

func init() { register("C17", c17{}) }

func c17Text(c c17Case) string {
	switch c.Fmt {
	case "json":
		it := c.Items
		if it == nil {
			it = []string{}
		}
		b, _ := json.Marshal(it)
		return string(b)
	default:
		var sb strings.Builder
		for _, s := range c.Items {
			sb.WriteString(s)
			sb.WriteByte('\n')
		}
		return sb.String()
	}
}

func c17Lines(out string) []string {
	if out == "" {
		return []string{}
	}
	out = strings.TrimSuffix(out, "\n")
	return strings.Split(out, "\n")
}

func (c17) Run(raw json.RawMessage) Result {
	var c c17Case
	if err := json.Unmarshal(raw, &c); err != nil {
		die("C17: bad case: %v", err)
	}
	text := c17Text(c)
	if strings.Contains(text, "'") {
		die("C17: text contains a single quote")
	}
	for _, p := range []string{c.Start, c.End} {
		for i := 0; i < len(p); i++ {
			ch := p[i]
			if !(ch >= '0' && ch <= '9' || ch >= 'a' && ch <= 'z' || ch == '-' || ch == '+' || ch == '^' || ch == '$') {
				die("C17: parameter %q outside the harness alphabet", p)
			}
		}
	}
	for _, p := range []string{c.Start, c.End} {
		if c.Kind != "s" && c.Kind != "r" {
			continue
		}
		for i := 0; i < len(p); i++ {
			ch := p[i]
			if !(ch >= '0' && ch <= '9' || ch >= 'a' && ch <= 'z' || ch == '^' || ch == '$') {
				die("C17: bound %q outside the harness alphabet for s / r", p)
			}
		}
	}
	flags := ""
	if c.Excl {
		flags = "e"
	}
	for _, f := range []string{"8", "b", "t"} {
		if strings.Contains(c.Flags, f) {
			flags += f
		}
	}
	switch c.Kind {
	case "n", "s", "r":
		flags += c.Kind
	}
	q := func(p string) string {
		if strings.ContainsAny(p, "^$") {
			return "'" + p + "'"
		}
		return p
	}
	open := "["
	switch {
	case strings.Contains(c.Flags, "!"):
		open = "![ "
	case c.Kind == "at":
		open = "@["
	}
	closeb := "]"
	if open == "![ " {
		closeb = " ]"
	}
	block := "tout " + c.Fmt + " '" + text + "' -> " + open + q(c.Start) + ".." + q(c.End) + closeb + flags
	r := RunMurex(block, 20*time.Second)

	o := c17Obs{Exit: r.ExitNum, Items: []string{}}
	switch {
	case r.Timeout:
		o.Class = 3
	case strings.Contains(r.Stderr, "panic caught") || strings.Contains(r.Stderr, "panic:") || strings.Contains(r.Stderr, "has crashed"):
		o.Class = 2
	case r.ExitNum != 0 || r.Err:
		o.Class = 1
	default:
		o.Class = 0
		switch c.Fmt {
		case "json":
			if strings.TrimSpace(r.Stdout) == "" {
				o.Class = 4
				break
			}
			var arr []string
			if err := json.Unmarshal([]byte(r.Stdout), &arr); err != nil {
				o.Class = 4
			} else {
				o.Items = append(o.Items, arr...)
			}
		default:
			o.Items = c17Lines(r.Stdout)
		}
	}
	if o.Class != 0 {
		o.Stderr = r.Stderr
		if len(o.Stderr) > 300 {
			o.Stderr = o.Stderr[:300]
		}
	}

	fm := map[string]string{"str": "RStr", "json": "RJson", "jsonl": "RJsonl"}[c.Fmt]
	if fm == "" {
		die("C17: bad fmt %q", c.Fmt)
	}
	kind := map[string]string{"": "KIndex", "n": "KNumber", "at": "KNumber", "s": "KString", "r": "KRegexp"}[c.Kind]
	if kind == "" {
		die("C17: bad kind %q", c.Kind)
	}
	fl := coqlit.Record("f_not", coqlit.Bool(strings.Contains(c.Flags, "!")), "f_rmbs", coqlit.Bool(strings.Contains(c.Flags, "8")),
		"f_blank", coqlit.Bool(strings.Contains(c.Flags, "b")), "f_trim", coqlit.Bool(strings.Contains(c.Flags, "t")))
	coq := coqlit.Record(
		"c_fmt", fm, "c_kind", kind, "c_flags", fl, "c_start", coqlit.Bytes(c.Start), "c_end", coqlit.Bytes(c.End),
		"c_excl", coqlit.Bool(c.Excl), "c_items", coqlit.BytesList(c.Items),
		"c_obs", coqlit.Record("o_class", coqlit.N(uint64(o.Class)), "o_items", coqlit.BytesList(o.Items)))

	form := "closed"
	switch {
	case c.Start == "" && c.End == "":
		form = "open-open"
	case c.Start == "":
		form = "open-e"
	case c.End == "":
		if strings.HasPrefix(c.Start, "-") {
			form = "last-k"
		} else {
			form = "s-open"
		}
	}
	if c.Excl {
		form += "/e"
	}
	if c.Kind != "" || c.Flags != "" {
		form += "/" + c.Kind + c.Flags
	}
	return Result{Obs: o, Coq: coq, Nontrivial: len(c.Items) > 0, Class: c.Fmt + "/" + form}
}

func c17Items(f string, n int, variant int) []string {
	it := make([]string, 0, n)
	for i := 1; i <= n; i++ {
		switch f {
		case "jsonl":
			switch (i + variant) % 3 {
			case 0:
				it = append(it, fmt.Sprintf("[%d,\"r\"]", i))
			case 1:
				it = append(it, fmt.Sprintf("\"line %d\"", i))
			default:
				it = append(it, fmt.Sprintf("{\"n\":%d}", i))
			}
		case "json":
			if variant%2 == 1 && i%5 == 0 {
				it = append(it, "") // empty strings are items too
			} else {
				it = append(it, fmt.Sprintf("j%d", i))
			}
		default:
			if variant%2 == 1 && i%4 == 0 {
				it = append(it, "") // an empty line is an item
			} else if variant%3 == 2 {
				it = append(it, fmt.Sprintf("same")) // equal items: only the count can tell
			} else {
				it = append(it, fmt.Sprintf("item %d", i))
			}
		}
	}
	return it
}

func c17Bounds(n int) []int {
	seen := map[int]bool{}
	var out []int
	for _, v := range []int{-5, -2, -1, 0, 1, 2, 3, n - 1, n, n + 1, n + 2, 35} {
		if v >= -5 && v <= 35 && !seen[v] {
			seen[v] = true
			out = append(out, v)
		}
	}
	return out
}

var c17Bad = []string{"x", "1x", "+2", "--1", "99999999999999999999", "-99999999999999999999", "0x2", "1e1", "-"}

func (c17) Gen(seed int64, tier string, emit func(any)) {
	thorough := tier == "thorough"
	fmts := []string{"str", "json", "jsonl"}
	itoa := strconv.Itoa

	// 1. the documented forms, exhaustively over the boundary set of every length 0..30
	for n := 0; n <= 30; n++ {
		bs := c17Bounds(n)
		var all []int
		if thorough {
			for v := -5; v <= 35; v++ {
				all = append(all, v)
			}
		} else {
			all = bs
		}
		for _, excl := range []bool{false, true} {
			for _, v := range all {
				f := fmts[(n+v+10)%3]
				emit(c17Mk(f, itoa(v), "", excl, c17Items(f, n, n+v+10), "", ""))
				f = fmts[(n+v+11)%3]
				emit(c17Mk(f, "", itoa(v), excl, c17Items(f, n, n+v+11), "", ""))
				if thorough && n%2 == 0 {
					for _, g := range fmts {
						emit(c17Mk(g, itoa(v), "", excl, c17Items(g, n, 0), "", ""))
						emit(c17Mk(g, "", itoa(v), excl, c17Items(g, n, 0), "", ""))
					}
				}
			}
			f := fmts[n%3]
			emit(c17Mk(f, "", "", excl, c17Items(f, n, 0), "", ""))
		}
	}

	// 2. closed form [s..e]: quick = boundary sets on selected lengths; thorough = the whole
	//    [-5,35]^2 grid on many lengths
	var lens []int
	if thorough {
		lens = []int{0, 1, 3, 7, 30}
	} else {
		lens = []int{0, 1, 2, 3, 4, 7, 12, 30}
	}
	for _, n := range lens {
		var ss []int
		if thorough {
			for v := -5; v <= 35; v++ {
				ss = append(ss, v)
			}
		} else {
			ss = c17Bounds(n)
		}
		for _, s := range ss {
			for _, e := range ss {
				for _, excl := range []bool{false, true} {
					f := "str"
					if !thorough {
						f = fmts[(n+s+e+20)%3]
					}
					emit(c17Mk(f, itoa(s), itoa(e), excl, c17Items(f, n, s+e+20), "", ""))
				}
			}
		}
		if thorough {
			for _, s := range c17Bounds(n) {
				for _, e := range c17Bounds(n) {
					for _, excl := range []bool{false, true} {
						emit(c17Mk("json", itoa(s), itoa(e), excl, c17Items("json", n, s+e+20), "", ""))
						emit(c17Mk("jsonl", itoa(s), itoa(e), excl, c17Items("jsonl", n, s+e+20), "", ""))
					}
				}
			}
		}
	}

	// 2b. the other matchers, the inverse form and the trimming flags
	c17Variants(tier, emit)

	// 3. malformed bounds
	for _, b := range c17Bad {
		for _, f := range fmts {
			emit(c17Mk(f, b, "3", false, c17Items(f, 4, 0), "", ""))
			emit(c17Mk(f, "2", b, false, c17Items(f, 4, 0), "", ""))
			emit(c17Mk(f, b, "", true, c17Items(f, 4, 0), "", ""))
		}
	}

	// 4. random
	r := rand.New(rand.NewSource(seed))
	nr := 600
	if thorough {
		nr = 8000
	}
	pick := func(n int) string {
		switch r.Intn(6) {
		case 0:
			return ""
		case 1:
			return itoa(r.Intn(41) - 5)
		case 2:
			return itoa(n + r.Intn(5) - 2)
		case 3:
			return itoa(-r.Intn(n + 3))
		case 4:
			return itoa(r.Intn(1000))
		default:
			return itoa(1 + r.Intn(n+1))
		}
	}
	for i := 0; i < nr; i++ {
		n := r.Intn(31)
		if r.Intn(20) == 0 {
			n = 31 + r.Intn(200)
		}
		f := fmts[r.Intn(3)]
		emit(c17Mk(f, pick(n), pick(n), r.Intn(3) == 0, c17Items(f, n, r.Intn(6)), "", ""))
	}
}

func (c17) Shrink(raw json.RawMessage) []any {
	var c c17Case
	if json.Unmarshal(raw, &c) != nil {
		return nil
	}
	var out []any
	if len(c.Items) > 0 {
		d := c
		d.Items = c.Items[:len(c.Items)-1]
		out = append(out, d)
	}
	return out
}

func c17Mk(f, start, end string, excl bool, items []string, kind, flags string) c17Case {
	return c17Case{Fmt: f, Start: start, End: end, Excl: excl, Items: items, Kind: kind, Flags: flags}
}

// items for the s / r matchers: tokens without spaces; some repeat so that
// "first match" matters
func c17Tokens(n, variant int) []string {
	it := make([]string, 0, n)
	for i := 1; i <= n; i++ {
		switch {
		case variant%3 == 0 && i == 2:
			it = append(it, "i3z") // a bound's text as a proper prefix of an earlier item
		case variant%3 == 1 && i%4 == 0:
			it = append(it, "i2") // repeats
		case variant%3 == 2 && i%5 == 0:
			it = append(it, fmt.Sprintf("x%di", i))
		default:
			it = append(it, fmt.Sprintf("i%d", i))
		}
	}
	return it
}

// items with blanks, surrounding spaces and backspaces for the 8 / b / t flags
func c17Messy(f string, n, variant int) []string {
	it := make([]string, 0, n)
	for i := 1; i <= n; i++ {
		switch (i + variant) % 5 {
		case 0:
			it = append(it, "")
		case 1:
			if f == "json" {
				it = append(it, fmt.Sprintf("  m%d ", i))
			} else {
				it = append(it, fmt.Sprintf("m%d", i))
			}
		case 2:
			it = append(it, fmt.Sprintf("ab\bc%d", i))
		case 3:
			if f == "json" {
				it = append(it, " ")
			} else {
				it = append(it, fmt.Sprintf("\bq%d\b\b", i))
			}
		default:
			it = append(it, fmt.Sprintf("k%d", i))
		}
	}
	return it
}

func c17Variants(tier string, emit func(any)) {
	thorough := tier == "thorough"
	itoa := strconv.Itoa
	fm := []string{"str", "json"}
	lens := []int{0, 1, 2, 3, 5, 9}
	if thorough {
		lens = []int{0, 1, 2, 3, 5, 9}
	}
	for _, n := range lens {
		bs := []int{-3, -1, 0, 1, 2, n - 1, n, n + 1}
		if thorough {
			bs = c17Bounds(n)
		}
		opt := func(v int, present bool) string {
			if !present {
				return ""
			}
			return itoa(v)
		}
		for _, s := range bs {
			for _, e := range bs {
				for form := 0; form < 3; form++ { // s..e, s.., ..e
					st, en := opt(s, form != 2), opt(e, form != 1)
					if form != 0 && s != e {
						continue
					}
					for _, excl := range []bool{false, true} {
						f := fm[(n+s+e+20)%2]
						items := c17Items(f, n, s+e+20)
						// number matcher, both spellings
						emit(c17Mk(f, st, en, excl, items, "n", ""))
						if !excl {
							emit(c17Mk(f, st, en, false, items, "at", ""))
						}
						// inverse of the index matcher
						emit(c17Mk(f, st, en, excl, items, "", "!"))
						if thorough {
							emit(c17Mk(f, st, en, excl, items, "n", "!"))
						}
						// trimming flags with the index matcher
						for _, fl := range []string{"b", "8", "t", "bt8"} {
							if !thorough && (s+e+n+len(fl)+40)%2 == 0 {
								continue
							}
							g := fm[(n+s+len(fl)+40)%2]
							emit(c17Mk(g, st, en, excl, c17Messy(g, n, s+e+20), "", fl))
						}
					}
				}
			}
		}
		// string and regexp matchers
		toks := []string{"", "i1", "i2", "i3", "i" + itoa(n), "zz", "x5i"}
		for v := 0; v < 3; v++ {
			items := c17Tokens(n, v)
			for _, s := range toks {
				for _, e := range toks {
					for _, excl := range []bool{false, true} {
						if !thorough && (len(s)+len(e)+v+n)%2 == 0 && s != "" && e != "" {
							continue
						}
						f := fm[(n+v+len(s))%2]
						emit(c17Mk(f, s, e, excl, items, "s", ""))
						if thorough || excl {
							emit(c17Mk(f, s, e, excl, items, "s", "!"))
						}
					}
				}
			}
			rx := []string{"", "i1", "^i2", "2$", "^i3$", "x", "5i$", "^zz"}
			for _, s := range rx {
				for _, e := range rx {
					if !thorough && (len(s)*3+len(e)+v+n)%3 != 0 {
						continue
					}
					f := fm[(n+v+len(e))%2]
					emit(c17Mk(f, s, e, (len(s)+len(e))%2 == 0, items, "r", ""))
				}
			}
		}
	}
}
