//go:build prop_c08 || prop_c09 || prop_c10 || prop_all

package main

// Shared by C08, C09, C10: in-process access to murex's block parser, the
// exec-time statement parameter parser and the expression evaluator, plus
// printing of environments as Gallina terms.

import (
	"encoding/json"
	"fmt"
	"math/rand"
	"sort"
	"strings"
	"sync"
	"time"

	"github.com/lmorg/murex/lang"
	"github.com/lmorg/murex/lang/expressions"
	"github.com/lmorg/murex/lang/ref"
	"github.com/lmorg/murex/lang/types"
	"github.com/lmorg/murex/utils/ansi"
	"github.com/lmorg/murex/utils/home"

	"verifharness/coqlit"
)

type c0xVar struct {
	Name string `json:"n"`
	Val  string `json:"v"`
}
type c0xArr struct {
	Name string   `json:"n"`
	Els  []string `json:"e"`
}

var c0xCounter int

// c0xFork creates a function-scoped process with the given variables set.
// It returns the scalar (string) view of every variable, arrays included.
func c0xFork(scalars []c0xVar, arrays []c0xArr) (*lang.Fork, []c0xVar) {
	initMurex()
	c0xCounter++
	fork := lang.ShellProcess.Fork(lang.F_FUNCTION | lang.F_NEW_MODULE | lang.F_NO_STDIN | lang.F_CREATE_STDOUT | lang.F_CREATE_STDERR)
	fork.Name.Set("verif")
	fork.FileRef = &ref.File{Source: &ref.Source{Module: fmt.Sprintf("murex/verif-c0x-%d", c0xCounter)}}
	var view []c0xVar
	for _, v := range scalars {
		if err := fork.Variables.Set(fork.Process, v.Name, v.Val, types.String); err != nil {
			die("c0x: cannot set $%s: %v", v.Name, err)
		}
	}
	for _, a := range arrays {
		els := make([]any, len(a.Els))
		for i := range a.Els {
			els[i] = a.Els[i]
		}
		if err := fork.Variables.Set(fork.Process, a.Name, els, types.Json); err != nil {
			die("c0x: cannot set @%s: %v", a.Name, err)
		}
	}
	for _, v := range scalars {
		s, err := fork.Variables.GetString(v.Name)
		if err != nil {
			die("c0x: cannot read back $%s: %v", v.Name, err)
		}
		view = append(view, c0xVar{v.Name, s})
	}
	for _, a := range arrays {
		s, err := fork.Variables.GetString(a.Name)
		if err != nil {
			die("c0x: cannot read back $%s: %v", a.Name, err)
		}
		view = append(view, c0xVar{a.Name, s})
	}
	return fork, view
}

// c0xFirst is the projected observation of ParseBlock(block) and of the
// exec-time parse of its first function.
type c0xFirst struct {
	Kind    int      `json:"kind"` // 0 ok, 1 clean error, 2 panic
	NFuncs  int      `json:"nfuncs"`
	IsExpr  bool     `json:"is_expr"`
	RawLen  int      `json:"rawlen"` // bytes of the first function's source text
	Cmd     string   `json:"cmd"`
	Params  []string `json:"params"`
	ErrText string   `json:"err,omitempty"` // diagnostics only, never compared
}

func c0xParse(block string, p *lang.Process) (o c0xFirst) {
	defer func() {
		if r := recover(); r != nil {
			o.Kind = 2
			o.ErrText = fmt.Sprint(r)
		}
	}()
	fns, err := expressions.ParseBlock([]rune(block))
	if err != nil {
		o.Kind = 1
		o.ErrText = err.Error()
		return
	}
	o.NFuncs = len(*fns)
	if o.NFuncs == 0 {
		o.Kind = 1
		o.ErrText = "no function"
		return
	}
	f := (*fns)[0]
	o.RawLen = len(string(f.Raw))
	if string(f.Command) == lang.ExpressionFunctionName {
		o.IsExpr = true
		return
	}
	cmd, params, err := expressions.StatementParametersParser(f.Raw, p)
	if err != nil {
		o.Kind = 1
		o.ErrText = err.Error()
		return
	}
	o.Cmd = cmd
	o.Params = params
	if o.Params == nil {
		o.Params = []string{}
	}
	return
}

// c0xAssign runs the expression `name = <lit>` through ParseBlock and
// ExecuteExpr and returns the string value of the variable afterwards.
func c0xAssign(name, lit string, p *lang.Process) (val string, kind int, errText string) {
	defer func() {
		if r := recover(); r != nil {
			kind = 2
			errText = fmt.Sprint(r)
		}
	}()
	block := name + " = " + lit
	fns, err := expressions.ParseBlock([]rune(block))
	if err != nil {
		return "", 1, err.Error()
	}
	if len(*fns) != 1 {
		return "", 1, fmt.Sprintf("%d functions", len(*fns))
	}
	f := (*fns)[0]
	if string(f.Command) != lang.ExpressionFunctionName {
		return "", 1, "not an expression"
	}
	if len(string(f.Raw)) != len(block) {
		return "", 1, "expression does not span the literal"
	}
	if _, err := expressions.ExecuteExpr(p, f.Raw); err != nil {
		return "", 1, err.Error()
	}
	s, err := p.Variables.GetString(name)
	if err != nil {
		return "", 1, err.Error()
	}
	return s, 0, ""
}

// ---- end to end: $PARAMS of a real murex function ----

var c0xFuncOnce sync.Once

// c0xTimedOut: the last end-to-end run did not finish in time (overloaded machine)
var c0xTimedOut bool

// c0xParams runs `<prelude>; verifpf <args>` in the interpreter and returns $PARAMS.
func c0xParams(prelude, args string) (params []string, ok bool) {
	c0xFuncOnce.Do(func() {
		r := RunMurex("function verifpf { $PARAMS -> format json }", 20*time.Second)
		if r.Err || r.ExitNum != 0 {
			die("c0x: cannot define verifpf: %s", r.Stderr)
		}
	})
	block := "verifpf " + args
	if prelude != "" {
		block = prelude + "\n" + block
	}
	r := RunMurex(block, 60*time.Second)
	if r.Timeout {
		c0xTimedOut = true
		return nil, false
	}
	if r.Err || r.ExitNum != 0 {
		return nil, false
	}
	if err := json.Unmarshal([]byte(r.Stdout), &params); err != nil {
		return nil, false
	}
	if params == nil {
		params = []string{}
	}
	return params, true
}

func c0xHome() string { return home.MyDir }

func c0xNoColour() bool { return !ansi.IsAllowed() }

// ---- Gallina printing ----

func c0xCoqEnv(view []c0xVar, arrays []c0xArr) string {
	sc := make([]string, len(view))
	for i, v := range view {
		sc[i] = "(" + coqlit.Bytes(v.Name) + ", " + coqlit.Bytes(v.Val) + ")"
	}
	ar := make([]string, len(arrays))
	for i, a := range arrays {
		ar[i] = "(" + coqlit.Bytes(a.Name) + ", " + coqlit.BytesList(a.Els) + ")"
	}
	return coqlit.Record("e_scalars", coqlit.List(sc), "e_arrays", coqlit.List(ar))
}

func c0xOptBytesList(ok bool, ss []string) string {
	return coqlit.Option(ok, coqlit.BytesList(ss))
}

// ---- generators ----

// injection-shaped alphabet for values and literals
var c0xAlphabet = []string{
	" ", " ", "\t", "\n", "\r", "'", "\"", "`", "\\", "$", "@", "~", "*", "?", ";", "|", "&", "&&", "{", "}",
	"(", ")", "[", "]", "<", ">", "#", "%", ":", "=", "-", "/", ",", ".", "!", "^", "+",
	"a", "b", "x", "y", "s", "t", "n", "r", "Z", "0", "7",
	"\x01", "\x07", "\x1b", "\x7f", "é", "ß", "日本", "😀", " ", " ",
}

var c0xTokens = []string{
	"{RED}", "{BLUE}", "{RESET}", "{ESC}", "{^A}", "{CRLF}", "{BG-RED}", "{NOPE}", "{}", "{A", "{F1-VT100}",
	"$x", "$(x)", "${", "@a", "~", "~>", "%[", "%{", "%(", "->", "=>", "||", "/#", " #", "\\n", "\\\"", "$HOME",
}

func c0xRandString(r *rand.Rand, maxLen int, tokenBias int) string {
	n := r.Intn(maxLen + 1)
	var b strings.Builder
	for i := 0; i < n; i++ {
		if tokenBias > 0 && r.Intn(tokenBias) == 0 {
			b.WriteString(c0xTokens[r.Intn(len(c0xTokens))])
		} else {
			b.WriteString(c0xAlphabet[r.Intn(len(c0xAlphabet))])
		}
	}
	return b.String()
}

func c0xSortedKeys(m map[string]int) []string {
	ks := make([]string, 0, len(m))
	for k := range m {
		ks = append(ks, k)
	}
	sort.Strings(ks)
	return ks
}
