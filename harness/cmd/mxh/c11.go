//go:build prop_c11 || prop_all

package main

// C11 — Variables are scoped per function call; globals are shared.
// Cases are trees of set / set-global / unset / unset-global / read / read-global
// operations nested in function calls (function, private, `source {}`,
// `fexec function`), blocks (if, !if, else, switch, ${}, unsafe, foreach !) and
// foreach loops. The tree is rendered as murex code; every read prints
// `t<tag>=<value>` or `t<tag>!`, every unset prints `t<tag>=0` or `t<tag>!`.

import (
	"encoding/json"
	"fmt"
	"math/rand"
	"regexp"
	"strconv"
	"strings"
	"time"

	"github.com/lmorg/murex/lang"

	"verifharness/coqlit"
)

type c11Op struct {
	K    string  `json:"k"` // set gset unset gunset read gread call block foreach
	X    int     `json:"x,omitempty"`
	V    int     `json:"v,omitempty"`
	Vals []int   `json:"vals,omitempty"`
	Syn  int     `json:"syn,omitempty"` // surface-syntax variant (not part of the model)
	Body []c11Op `json:"body,omitempty"`
}

type c11Case struct {
	Ops []c11Op `json:"ops"`
}

type c11Ev struct {
	Tag int  `json:"t"`
	Ok  bool `json:"ok"`
	V   int  `json:"v"`
}

type c11Obs struct {
	Status int     `json:"status"`
	Trace  []c11Ev `json:"trace"`
	Code   string  `json:"code,omitempty"`
}

type c11 struct{}

func init() { register("C11", c11{}) }

var c11Names = []string{"cxia", "cxib", "cxic", "cxid"}

const (
	c11SetSyn     = 4
	c11GSetSyn    = 3
	c11ReadSyn    = 3
	c11CallSyn    = 4
	c11BlockSyn   = 7
	c11ForeachSyn = 2
)

// ---------------------------------------------------------------- rendering

type c11Render struct {
	tag  int
	fn   int
	defs []string
	// inSource: the code being rendered runs under the module name of a `source { }`
	// body (directly, or through `fexec function`, which keeps the caller's module):
	// privates of the program's module are not callable there (that is C22's
	// subject), so a private call is rendered as a function.
	inSource bool
}

func c11Name(x int) string { return c11Names[((x%len(c11Names))+len(c11Names))%len(c11Names)] }

func (r *c11Render) ops(ops []c11Op) (code string, coq string) {
	var cs, qs []string
	for _, o := range ops {
		c, q := r.op(o)
		cs = append(cs, c)
		qs = append(qs, q)
	}
	return strings.Join(cs, "; "), coqlit.List(qs)
}

func c11Mod(a, n int) int {
	if a < 0 {
		a = -a
	}
	return a % n
}

func (r *c11Render) op(o c11Op) (string, string) {
	x := c11Name(o.X)
	xq := coqlit.N(uint64(c11Mod(o.X, len(c11Names))))
	switch o.K {
	case "set":
		v := strconv.Itoa(o.V)
		q := coqlit.App("OSet", xq, coqlit.N(uint64(o.V)))
		switch c11Mod(o.Syn, c11SetSyn) {
		case 0:
			return "set " + x + "=" + v, q
		case 1:
			return x + " = " + v, q
		case 2:
			return "$" + x + " = " + v, q
		default:
			return "out " + v + " -> set " + x, q
		}
	case "gset":
		v := strconv.Itoa(o.V)
		q := coqlit.App("OSetGlobal", xq, coqlit.N(uint64(o.V)))
		switch c11Mod(o.Syn, c11GSetSyn) {
		case 0:
			return "$GLOBAL." + x + " = " + v, q
		case 1:
			return "global " + x + "=" + v, q
		default:
			return "out " + v + " -> global " + x, q
		}
	case "unset", "gunset":
		r.tag++
		t := r.tag
		cmd, ctor := "!set", "OUnset"
		if o.K == "gunset" {
			cmd, ctor = "!global", "OUnsetGlobal"
		}
		code := fmt.Sprintf(`try { %s %s; out "t%d=0" }; catch { out "t%d!" }`, cmd, x, t, t)
		return code, coqlit.App(ctor, coqlit.N(uint64(t)), xq)
	case "read":
		r.tag++
		t := r.tag
		q := coqlit.App("ORead", coqlit.N(uint64(t)), xq)
		switch c11Mod(o.Syn, c11ReadSyn) {
		case 0:
			return fmt.Sprintf(`out "t%d=$%s" || out "t%d!"`, t, x, t), q
		case 1:
			return fmt.Sprintf(`out "t%d=$(%s)" || out "t%d!"`, t, x, t), q
		default:
			return fmt.Sprintf(`echo "t%d=$%s" || out "t%d!"`, t, x, t), q
		}
	case "gread":
		r.tag++
		t := r.tag
		q := coqlit.App("OReadGlobal", coqlit.N(uint64(t)), xq)
		return fmt.Sprintf(`out "t%d=$GLOBAL.%s" || out "t%d!"`, t, x, t), q
	case "call":
		syn := c11Mod(o.Syn, c11CallSyn)
		if syn == 2 && r.inSource {
			syn = 0
		}
		saved := r.inSource
		switch syn {
		case 0, 2:
			r.inSource = false // a function / private body runs under the module that defined it
		case 3:
			r.inSource = true
		} // case 1: `fexec function` runs the body under the CALLER's module (feFunction passes p.FileRef)
		body, q := r.ops(o.Body)
		r.inSource = saved
		q = coqlit.App("OCall", q)
		r.fn++
		switch syn {
		case 0:
			fn := fmt.Sprintf("cxifn%d", r.fn)
			r.defs = append(r.defs, "function "+fn+" { "+body+" }")
			return fn, q
		case 1:
			fn := fmt.Sprintf("cxifn%d", r.fn)
			r.defs = append(r.defs, "function "+fn+" { "+body+" }")
			return "fexec function " + fn, q
		case 2:
			fn := fmt.Sprintf("cxipv%d", r.fn)
			r.defs = append(r.defs, "private "+fn+" { "+body+" }")
			return fn, q
		default:
			return "source { " + body + " }", q
		}
	case "block":
		body, q := r.ops(o.Body)
		q = coqlit.App("OBlock", q)
		switch c11Mod(o.Syn, c11BlockSyn) {
		case 0:
			return "if { true } then { " + body + " }", q
		case 1:
			return "if { false } then { out never } else { " + body + " }", q
		case 2:
			return "!if { false } then { " + body + " }", q
		case 3:
			return "switch { case { false } then { out never }; case { true } then { " + body + " } }", q
		case 4:
			return "out ${ " + body + " }", q
		case 5:
			return "unsafe { " + body + " }", q
		default:
			return "%[1] -> foreach ! { " + body + " }", q
		}
	case "foreach":
		body, q := r.ops(o.Body)
		vs := make([]string, len(o.Vals))
		vq := make([]string, len(o.Vals))
		for i, v := range o.Vals {
			vs[i] = strconv.Itoa(v)
			vq[i] = coqlit.N(uint64(v))
		}
		q = coqlit.App("OForeach", xq, coqlit.List(vq), q)
		arr := "%[" + strings.Join(vs, ",") + "]"
		if c11Mod(o.Syn, c11ForeachSyn) == 1 {
			arr = "tout json ([" + strings.Join(vs, ",") + "])"
		}
		return arr + " -> foreach " + x + " { " + body + " }", q
	}
	die("C11: bad op kind %q", o.K)
	return "", ""
}

func c11Program(c c11Case) (code, coq string) {
	r := &c11Render{}
	body, q := r.ops(c.Ops)
	defs := strings.Join(r.defs, "\n")
	if defs != "" {
		defs += "\n"
	}
	return defs + body + "\n", q
}

var c11Line = regexp.MustCompile(`^t(\d+)(?:=(.*)|(!))$`)

func (c11) Run(raw json.RawMessage) Result {
	var c c11Case
	if err := json.Unmarshal(raw, &c); err != nil {
		die("C11: bad case: %v", err)
	}
	initMurex()
	for _, n := range c11Names {
		_ = lang.GlobalVariables.Unset(n)
	}
	code, opsCoq := c11Program(c)
	res := RunMurex(code, 30*time.Second)
	var o c11Obs
	if res.Timeout || res.Err {
		o.Status = 1
		o.Code = code
	}
	for _, line := range strings.Split(res.Stdout, "\n") {
		m := c11Line.FindStringSubmatch(strings.TrimRight(line, "\r"))
		if m == nil {
			continue
		}
		tag, _ := strconv.Atoi(m[1])
		ev := c11Ev{Tag: tag}
		if m[3] == "" {
			ev.Ok = true
			v, err := strconv.Atoi(m[2])
			if err != nil || v < 0 {
				v = 4294967295 // a value no case uses: malformed read
			}
			ev.V = v
		}
		o.Trace = append(o.Trace, ev)
	}
	evs := make([]string, len(o.Trace))
	for i, e := range o.Trace {
		evs[i] = "(" + coqlit.N(uint64(e.Tag)) + ", " + coqlit.Option(e.Ok, coqlit.N(uint64(e.V))) + ")"
	}
	coq := coqlit.Record("c_ops", opsCoq, "c_status", coqlit.N(uint64(o.Status)), "c_obs", coqlit.List(evs))
	st := c11Stats(c.Ops)
	class := fmt.Sprintf("depth%d", st.depth)
	if st.calls == 0 {
		class += "/nocall"
	}
	return Result{Obs: o, Coq: coq, Nontrivial: st.nest > 0 && st.events > 0 && st.writes > 0, Class: class}
}

type c11Stat struct{ depth, calls, nest, events, writes, n int }

func c11Stats(ops []c11Op) c11Stat {
	var s c11Stat
	for _, o := range ops {
		s.n++
		switch o.K {
		case "call", "block", "foreach":
			s.nest++
			if o.K == "call" {
				s.calls++
			}
			b := c11Stats(o.Body)
			if b.depth+1 > s.depth {
				s.depth = b.depth + 1
			}
			s.calls += b.calls
			s.nest += b.nest
			s.events += b.events
			s.writes += b.writes
			s.n += b.n
		case "read", "gread", "unset", "gunset":
			s.events++
			if o.K != "read" && o.K != "gread" {
				s.writes++
			}
		default:
			s.writes++
		}
	}
	return s
}

// ---------------------------------------------------------------- generation

type c11G struct {
	r   *rand.Rand
	val int
	syn int
}

func (g *c11G) fresh() int { g.val++; return g.val }
func (g *c11G) nsyn() int  { g.syn++; return g.syn }

func (g *c11G) name() int {
	switch p := g.r.Intn(100); {
	case p < 50:
		return 0
	case p < 78:
		return 1
	case p < 92:
		return 2
	}
	return 3
}

func (g *c11G) ops(depth int, budget *int) []c11Op {
	n := 1 + g.r.Intn(7)
	var out []c11Op
	for i := 0; i < n && *budget > 0; i++ {
		*budget--
		p := g.r.Intn(100)
		switch {
		case p < 20:
			out = append(out, c11Op{K: "set", X: g.name(), V: g.fresh(), Syn: g.r.Intn(c11SetSyn)})
		case p < 32:
			out = append(out, c11Op{K: "gset", X: g.name(), V: g.fresh(), Syn: g.r.Intn(c11GSetSyn)})
		case p < 42:
			out = append(out, c11Op{K: "unset", X: g.name()})
		case p < 48:
			out = append(out, c11Op{K: "gunset", X: g.name()})
		case p < 68:
			out = append(out, c11Op{K: "read", X: g.name(), Syn: g.r.Intn(c11ReadSyn)})
		case p < 76:
			out = append(out, c11Op{K: "gread", X: g.name()})
		default:
			if depth <= 0 {
				out = append(out, c11Op{K: "read", X: g.name(), Syn: g.r.Intn(c11ReadSyn)})
				continue
			}
			switch q := g.r.Intn(10); {
			case q < 5:
				out = append(out, c11Op{K: "call", Syn: g.r.Intn(c11CallSyn), Body: g.ops(depth-1, budget)})
			case q < 8:
				out = append(out, c11Op{K: "block", Syn: g.r.Intn(c11BlockSyn), Body: g.ops(depth-1, budget)})
			default:
				vals := []int{g.fresh()}
				if g.r.Intn(2) == 0 {
					vals = append(vals, g.fresh())
				}
				out = append(out, c11Op{K: "foreach", X: g.name(), Vals: vals, Syn: g.r.Intn(c11ForeachSyn), Body: g.ops(depth-1, budget)})
			}
		}
	}
	return out
}

// exhaustive families on one name (0), one decoy name (1)
func (g *c11G) pre(k int) []c11Op {
	switch k {
	case 1:
		return []c11Op{{K: "set", X: 0, V: g.fresh(), Syn: g.nsyn()}}
	case 2:
		return []c11Op{{K: "gset", X: 0, V: g.fresh(), Syn: g.nsyn()}}
	case 3:
		return []c11Op{{K: "gset", X: 0, V: g.fresh(), Syn: g.nsyn()}, {K: "set", X: 0, V: g.fresh(), Syn: g.nsyn()}}
	}
	return nil
}

func (g *c11G) inner(k int) []c11Op {
	switch k {
	case 1:
		return []c11Op{{K: "set", X: 0, V: g.fresh(), Syn: g.nsyn()}}
	case 2:
		return []c11Op{{K: "gset", X: 0, V: g.fresh(), Syn: g.nsyn()}}
	case 3:
		return []c11Op{{K: "unset", X: 0}}
	case 4:
		return []c11Op{{K: "gunset", X: 0}}
	}
	return nil
}

func (g *c11G) reads() []c11Op {
	return []c11Op{{K: "read", X: 0, Syn: g.nsyn()}, {K: "gread", X: 0}}
}

func (g *c11G) wrap(k int, body []c11Op) c11Op {
	switch k {
	case 0:
		return c11Op{K: "call", Syn: g.nsyn(), Body: body}
	case 1:
		return c11Op{K: "block", Syn: g.nsyn(), Body: body}
	}
	vals := []int{g.fresh(), g.fresh()}
	return c11Op{K: "foreach", X: 1, Vals: vals, Syn: g.nsyn(), Body: body}
}

func c11Cat(parts ...[]c11Op) []c11Op {
	var out []c11Op
	for _, p := range parts {
		out = append(out, p...)
	}
	return out
}

func (c11) Gen(seed int64, tier string, emit func(any)) {
	g := &c11G{r: rand.New(rand.NewSource(seed))}
	// one level: pre ; wrapper { inner ; reads } ; reads ; unset ; reads
	for pre := 0; pre < 4; pre++ {
		for w := 0; w < 3; w++ {
			for in := 0; in < 5; in++ {
				g.val = 0
				body := c11Cat(g.reads(), g.inner(in), g.reads())
				ops := c11Cat(g.pre(pre), []c11Op{g.wrap(w, body)}, g.reads(), []c11Op{{K: "unset", X: 0}}, g.reads())
				emit(c11Case{Ops: ops})
			}
		}
	}
	// two levels: pre ; w1 { mid ; w2 { inner ; reads } ; reads } ; reads
	for pre := 0; pre < 4; pre++ {
		for w1 := 0; w1 < 3; w1++ {
			for mid := 0; mid < 5; mid++ {
				for w2 := 0; w2 < 3; w2++ {
					for in := 0; in < 5; in++ {
						if tier != "thorough" && (pre*7+w1*5+mid*3+w2*2+in)%3 != int(seed%3+3)%3 {
							continue
						}
						g.val = 0
						b2 := c11Cat(g.inner(in), g.reads())
						b1 := c11Cat(g.inner(mid), []c11Op{g.wrap(w2, b2)}, g.reads())
						ops := c11Cat(g.pre(pre), []c11Op{g.wrap(w1, b1)}, g.reads())
						emit(c11Case{Ops: ops})
					}
				}
			}
		}
	}
	// every call syntax x every block syntax, callee sets, block shares
	for cs := 0; cs < c11CallSyn; cs++ {
		for bs := 0; bs < c11BlockSyn; bs++ {
			g.val = 0
			ops := []c11Op{
				{K: "set", X: 0, V: g.fresh()},
				{K: "call", Syn: cs, Body: []c11Op{
					{K: "read", X: 0}, {K: "set", X: 0, V: g.fresh()}, {K: "set", X: 1, V: g.fresh()},
					{K: "block", Syn: bs, Body: []c11Op{{K: "read", X: 0}, {K: "set", X: 2, V: g.fresh()}, {K: "gset", X: 3, V: g.fresh()}}},
					{K: "read", X: 2}, {K: "read", X: 3}}},
				{K: "read", X: 0}, {K: "read", X: 1}, {K: "read", X: 2}, {K: "read", X: 3},
				{K: "block", Syn: bs, Body: []c11Op{{K: "set", X: 1, V: g.fresh()}, {K: "unset", X: 0}}},
				{K: "read", X: 0}, {K: "read", X: 1},
			}
			emit(c11Case{Ops: ops})
		}
	}
	n := 300
	if tier == "thorough" {
		n = 6000
	}
	for i := 0; i < n; i++ {
		g.val = 0
		budget := 5 + g.r.Intn(36)
		depth := 1 + g.r.Intn(4)
		var ops []c11Op
		for len(ops) == 0 || (budget > 0 && g.r.Intn(3) > 0) {
			ops = append(ops, g.ops(depth, &budget)...)
			if budget <= 0 {
				break
			}
		}
		emit(c11Case{Ops: ops})
	}
}

// ---------------------------------------------------------------- shrinking

func c11Remove(ops []c11Op, emit func([]c11Op)) {
	for i := range ops {
		// drop op i
		cand := append(append([]c11Op{}, ops[:i]...), ops[i+1:]...)
		emit(cand)
		if len(ops[i].Body) > 0 || ops[i].K == "call" || ops[i].K == "block" || ops[i].K == "foreach" {
			// shrink inside
			c11Remove(ops[i].Body, func(b []c11Op) {
				cp := append([]c11Op{}, ops...)
				o := cp[i]
				o.Body = b
				cp[i] = o
				emit(cp)
			})
		}
	}
}

func (c11) Shrink(raw json.RawMessage) []any {
	var c c11Case
	if err := json.Unmarshal(raw, &c); err != nil {
		return nil
	}
	var out []any
	c11Remove(c.Ops, func(o []c11Op) {
		if len(out) < 200 {
			out = append(out, c11Case{Ops: o})
		}
	})
	return out
}
