//go:build prop_c16 || prop_all

package main

// C16 — Index and element lookups return the element or a clean error.
// Cases: a document (JSON value) rendered as json / yaml / jsonl, an operator
// (`[`, `![`, `[[`) and its parameters, run through the real builtins
// in-process. Observation: kind (ok | clean error | panic caught | timeout |
// silent failure), stdout bytes and stdout parsed back into a value.

import (
	"bytes"
	"encoding/json"
	"fmt"
	"math/rand"
	"sort"
	"strconv"
	"strings"
	"time"

	"github.com/lmorg/murex/lang/modver"
	"github.com/lmorg/murex/utils/semver"
	yaml "gopkg.in/yaml.v3"

	"verifharness/coqlit"
)

type c16Case struct {
	Fmt    string          `json:"fmt"` // json | yaml | jsonl
	Op     string          `json:"op"`  // index | not | elem
	Doc    json.RawMessage `json:"doc"` // the document as JSON (jsonl: the array of rows)
	Params []string        `json:"params"`
}

type c16Obs struct {
	Class  int    `json:"class"` // 0 ok, 1 clean error, 2 panic caught, 3 timeout, 4 non-zero exit without message
	Stdout string `json:"stdout"`
	Exit   int    `json:"exit"`
	Parsed bool   `json:"parsed"`
	Legacy bool   `json:"legacy"`
	Stderr string `json:"stderr,omitempty"`
}

type c16 struct{}

func init() { register("C16", c16{}) }

// ---- value tree -------------------------------------------------------------

// c16Val mirrors Coq's jval. Objects keep keys sorted.
type c16Val struct {
	Kind string // null bool num str arr obj
	B    bool
	Z    int64
	S    string
	L    []c16Val
	K    []string // obj keys (sorted), values in L
}

func c16FromAny(v any) (c16Val, bool) {
	switch t := v.(type) {
	case nil:
		return c16Val{Kind: "null"}, true
	case bool:
		return c16Val{Kind: "bool", B: t}, true
	case json.Number:
		n, err := strconv.ParseInt(string(t), 10, 64)
		if err != nil {
			return c16Val{}, false
		}
		return c16Val{Kind: "num", Z: n}, true
	case int:
		return c16Val{Kind: "num", Z: int64(t)}, true
	case int64:
		return c16Val{Kind: "num", Z: t}, true
	case float64:
		if t != float64(int64(t)) {
			return c16Val{}, false
		}
		return c16Val{Kind: "num", Z: int64(t)}, true
	case string:
		return c16Val{Kind: "str", S: t}, true
	case []any:
		r := c16Val{Kind: "arr", L: []c16Val{}}
		for _, e := range t {
			x, ok := c16FromAny(e)
			if !ok {
				return c16Val{}, false
			}
			r.L = append(r.L, x)
		}
		return r, true
	case map[string]any:
		r := c16Val{Kind: "obj"}
		for k := range t {
			r.K = append(r.K, k)
		}
		sort.Strings(r.K)
		for _, k := range r.K {
			x, ok := c16FromAny(t[k])
			if !ok {
				return c16Val{}, false
			}
			r.L = append(r.L, x)
		}
		return r, true
	case map[any]any:
		m := map[string]any{}
		for k, e := range t {
			ks, ok := k.(string)
			if !ok {
				return c16Val{}, false
			}
			m[ks] = e
		}
		return c16FromAny(m)
	}
	return c16Val{}, false
}

// c16ToAny gives a Go value for json.Marshal / yaml.Marshal (ints stay ints).
func c16ToAny(v c16Val) any {
	switch v.Kind {
	case "null":
		return nil
	case "bool":
		return v.B
	case "num":
		return int(v.Z)
	case "str":
		return v.S
	case "arr":
		r := make([]any, len(v.L))
		for i := range v.L {
			r[i] = c16ToAny(v.L[i])
		}
		return r
	default:
		m := map[string]any{}
		for i, k := range v.K {
			m[k] = c16ToAny(v.L[i])
		}
		return m
	}
}

func c16Coq(v c16Val) string {
	switch v.Kind {
	case "null":
		return "JNull"
	case "bool":
		return "(JBool " + coqlit.Bool(v.B) + ")"
	case "num":
		return "(JNum " + coqlit.Z(v.Z) + ")"
	case "str":
		return "(JStr " + coqlit.Bytes(v.S) + ")"
	case "arr":
		e := make([]string, len(v.L))
		for i := range v.L {
			e[i] = c16Coq(v.L[i])
		}
		return "(JArr " + coqlit.List(e) + ")"
	default:
		e := make([]string, len(v.L))
		for i := range v.L {
			e[i] = "(" + coqlit.Bytes(v.K[i]) + ", " + c16Coq(v.L[i]) + ")"
		}
		return "(JObj " + coqlit.List(e) + ")"
	}
}

func c16ParseJSON(b []byte) (c16Val, bool) {
	d := json.NewDecoder(bytes.NewReader(b))
	d.UseNumber()
	var v any
	if err := d.Decode(&v); err != nil {
		return c16Val{}, false
	}
	if d.More() {
		return c16Val{}, false
	}
	return c16FromAny(v)
}

// ---- running ----------------------------------------------------------------

func c16Text(format string, doc c16Val) (string, error) {
	switch format {
	case "json":
		b, err := json.Marshal(c16ToAny(doc))
		return string(b), err
	case "yaml":
		b, err := yaml.Marshal(c16ToAny(doc))
		return string(b), err
	case "jsonl":
		if doc.Kind != "arr" {
			return "", fmt.Errorf("jsonl document must be an array of rows")
		}
		var sb strings.Builder
		for _, r := range doc.L {
			b, err := json.Marshal(c16ToAny(r))
			if err != nil {
				return "", err
			}
			sb.Write(b)
			sb.WriteByte('\n')
		}
		return sb.String(), nil
	}
	return "", fmt.Errorf("bad format %q", format)
}

func c16Simple(p string) bool {
	if p == "" {
		return false
	}
	for i := 0; i < len(p); i++ {
		c := p[i]
		ok := c >= '0' && c <= '9' || c >= 'a' && c <= 'z' || c >= 'A' && c <= 'Z' || c == '-' || c == '_' || c == '/' || c == '.' || c == '+' || c == ','
		if !ok {
			return false
		}
	}
	return true
}

func c16Quote(p string) string {
	if c16Simple(p) {
		return p
	}
	return "'" + p + "'"
}

func c16Block(c c16Case, text string) string {
	src := "tout " + c.Fmt + " '" + text + "' -> "
	switch c.Op {
	case "elem":
		if len(c.Params) == 1 && c16Simple(c.Params[0]) {
			return src + "[[" + c.Params[0] + "]]"
		}
		q := make([]string, len(c.Params))
		for i, p := range c.Params {
			q[i] = c16Quote(p)
		}
		return src + "[[ " + strings.Join(q, " ") + " ]]"
	case "not":
		q := make([]string, len(c.Params))
		for i, p := range c.Params {
			q[i] = c16Quote(p)
		}
		return src + "![ " + strings.Join(q, " ") + " ]"
	default:
		if len(c.Params) == 1 && c16Simple(c.Params[0]) {
			return src + "[" + c.Params[0] + "]"
		}
		q := make([]string, len(c.Params))
		for i, p := range c.Params {
			q[i] = c16Quote(p)
		}
		return src + "[ " + strings.Join(q, " ") + " ]"
	}
}

func c16Legacy() bool {
	return modver.Get("murex/verif-c16").Compare(semver.Version8_0).IsLessThan()
}

func (c16) Run(raw json.RawMessage) Result {
	var c c16Case
	if err := json.Unmarshal(raw, &c); err != nil {
		die("C16: bad case: %v", err)
	}
	doc, ok := c16ParseJSON(c.Doc)
	if !ok {
		die("C16: bad doc %s", string(c.Doc))
	}
	text, err := c16Text(c.Fmt, doc)
	if err != nil {
		die("C16: %v", err)
	}
	if strings.Contains(text, "'") {
		die("C16: document text contains a single quote: %q", text)
	}
	for _, p := range c.Params {
		if strings.ContainsAny(p, "'\n") {
			die("C16: parameter contains a quote or newline: %q", p)
		}
	}
	block := c16Block(c, text)
	r := RunMurex(block, 20*time.Second)

	o := c16Obs{Stdout: r.Stdout, Exit: r.ExitNum, Legacy: c16Legacy()}
	switch {
	case r.Timeout:
		o.Class = 3
	case strings.Contains(r.Stderr, "panic caught") || strings.Contains(r.Stderr, "panic:") || strings.Contains(r.Stderr, "has crashed"):
		o.Class = 2
	case r.ExitNum != 0 || r.Err:
		if strings.TrimSpace(r.Stderr) == "" {
			o.Class = 4
		} else {
			o.Class = 1
		}
	default:
		o.Class = 0
	}
	if o.Class != 0 {
		o.Stderr = r.Stderr
		if len(o.Stderr) > 300 {
			o.Stderr = o.Stderr[:300]
		}
	}

	// stdout parsed back into a value
	var pv c16Val
	parsed := false
	switch {
	case c.Fmt == "json":
		pv, parsed = c16ParseJSON([]byte(r.Stdout))
	case c.Fmt == "yaml":
		var v any
		if strings.TrimSpace(r.Stdout) != "" && yaml.Unmarshal([]byte(r.Stdout), &v) == nil {
			pv, parsed = c16FromAny(v)
		}
	case c.Fmt == "jsonl" && c.Op != "elem":
		pv = c16Val{Kind: "arr", L: []c16Val{}}
		parsed = true
		for _, ln := range strings.Split(r.Stdout, "\n") {
			if strings.TrimSpace(ln) == "" {
				continue
			}
			x, ok := c16ParseJSON([]byte(ln))
			if !ok {
				parsed = false
				break
			}
			pv.L = append(pv.L, x)
		}
	}
	o.Parsed = parsed

	params := make([]string, len(c.Params))
	for i, p := range c.Params {
		params[i] = coqlit.Bytes(p)
	}
	fm := map[string]string{"json": "FJson", "yaml": "FYaml", "jsonl": "FJsonl"}[c.Fmt]
	op := map[string]string{"index": "OpIndex", "not": "OpNot", "elem": "OpElem"}[c.Op]
	if fm == "" || op == "" {
		die("C16: bad fmt/op in case")
	}
	coq := coqlit.Record(
		"c_fmt", fm, "c_op", op, "c_legacy", coqlit.Bool(o.Legacy),
		"c_doc", c16Coq(doc), "c_params", coqlit.List(params),
		"c_obs", coqlit.Record("o_class", coqlit.N(uint64(o.Class)), "o_out", coqlit.Bytes(r.Stdout),
			"o_val", coqlit.Option(parsed, c16Coq(pv))))

	nontrivial := len(c.Params) > 0 && (doc.Kind == "arr" || doc.Kind == "obj") && len(doc.L) > 0
	shape := doc.Kind
	pc := "1"
	if len(c.Params) != 1 {
		pc = "n"
	}
	return Result{Obs: o, Coq: coq, Nontrivial: nontrivial, Class: c.Fmt + "/" + c.Op + "/" + shape + "/" + pc}
}

// ---- generation ---------------------------------------------------------------

func c16Arr(n int, flavour int) c16Val {
	v := c16Val{Kind: "arr", L: []c16Val{}}
	for i := 0; i < n; i++ {
		var e c16Val
		switch flavour {
		case 0: // distinct integers
			e = c16Val{Kind: "num", Z: int64(100 + i)}
		case 1: // distinct strings
			e = c16Val{Kind: "str", S: fmt.Sprintf("s%d", i)}
		default: // mixed kinds, position still identifiable
			switch (i + flavour) % 6 {
			case 0:
				e = c16Val{Kind: "num", Z: int64(-7 * i)}
			case 1:
				e = c16Val{Kind: "str", S: fmt.Sprintf("e %d", i)}
			case 2:
				e = c16Val{Kind: "bool", B: i%4 < 2}
			case 3:
				e = c16Val{Kind: "arr", L: []c16Val{{Kind: "num", Z: int64(i)}, {Kind: "str", S: "x"}}}
			case 4:
				e = c16Val{Kind: "obj", K: []string{"k"}, L: []c16Val{{Kind: "num", Z: int64(i)}}}
			default:
				e = c16Val{Kind: "null"}
			}
		}
		v.L = append(v.L, e)
	}
	return v
}

func c16Rows(n int, table bool) c16Val {
	v := c16Val{Kind: "arr", L: []c16Val{}}
	for i := 0; i < n; i++ {
		if table {
			v.L = append(v.L, c16Val{Kind: "arr", L: []c16Val{{Kind: "num", Z: int64(i)}, {Kind: "str", S: fmt.Sprintf("r%d", i)}}})
		} else if i%2 == 0 {
			v.L = append(v.L, c16Val{Kind: "num", Z: int64(200 + i)})
		} else {
			v.L = append(v.L, c16Val{Kind: "str", S: fmt.Sprintf("row%d", i)})
		}
	}
	return v
}

func c16Emit(emit func(any), f, op string, doc c16Val, params ...string) {
	b, err := json.Marshal(c16ToAny(doc))
	if err != nil {
		die("C16 gen: %v", err)
	}
	emit(c16Case{Fmt: f, Op: op, Doc: b, Params: params})
}

var c16KeyPool = []string{"a", "b", "c", "key", "Key", "KEY", "name", "Name", "foo_bar", "Foo_bar", "foo-bar", "Foo-Bar", "x1", "X1", "id", "ID", "Id", "zz", "alpha", "ALPHA", "Alpha", "m2m", "M2m", "a-b", "A-B"}

func c16RandScalar(r *rand.Rand) c16Val {
	switch r.Intn(5) {
	case 0:
		return c16Val{Kind: "num", Z: int64(r.Intn(2001) - 1000)}
	case 1:
		return c16Val{Kind: "str", S: []string{"", "v", "hello world", "x-y_z", "A:b", "0", "true"}[r.Intn(7)]}
	case 2:
		return c16Val{Kind: "bool", B: r.Intn(2) == 0}
	case 3:
		return c16Val{Kind: "null"}
	default:
		return c16Val{Kind: "num", Z: int64(r.Intn(10))}
	}
}

func c16RandVal(r *rand.Rand, depth int) c16Val {
	if depth <= 0 || r.Intn(3) == 0 {
		return c16RandScalar(r)
	}
	if r.Intn(2) == 0 {
		n := r.Intn(5)
		v := c16Val{Kind: "arr", L: []c16Val{}}
		for i := 0; i < n; i++ {
			v.L = append(v.L, c16RandVal(r, depth-1))
		}
		return v
	}
	return c16RandObj(r, depth-1, r.Intn(5))
}

func c16RandObj(r *rand.Rand, depth, n int) c16Val {
	ks := map[string]bool{}
	for len(ks) < n {
		ks[c16KeyPool[r.Intn(len(c16KeyPool))]] = true
	}
	v := c16Val{Kind: "obj"}
	for k := range ks {
		v.K = append(v.K, k)
	}
	sort.Strings(v.K)
	for range v.K {
		v.L = append(v.L, c16RandVal(r, depth))
	}
	return v
}

func c16CaseVariant(r *rand.Rand, k string) string {
	switch r.Intn(5) {
	case 0:
		return strings.ToLower(k)
	case 1:
		return strings.ToUpper(k)
	case 2:
		return strings.Title(strings.ToLower(k))
	default:
		return k
	}
}

var c16BadParams = []string{"x", "1x", "+1", "--1", "", "01", "-0", "1.0", "99999999999999999999", "-99999999999999999999", "9223372036854775807", "-9223372036854775808", " 1", "0x1", "1e1"}

func (c16) Gen(seed int64, tier string, emit func(any)) {
	thorough := tier == "thorough"
	// 0. design-phase witnesses
	c16Emit(emit, "json", "index", c16Arr(3, 0), "-5")
	c16Emit(emit, "yaml", "index", c16Arr(3, 0), "-4")
	c16Emit(emit, "json", "index", c16Arr(0, 0), "-1")
	c16Emit(emit, "json", "index", c16Arr(3, 0), "0", "-4")

	// 1. exhaustive: lengths 0..20 x k in [-30,30], `[k]` and `[[/k]]`, json / yaml / jsonl.
	// quick: the whole grid for json; for yaml and jsonl every boundary index
	// (-n-1, -n, -1, 0, n-1, n) and half / a third of the rest. thorough: everything,
	// with all three element flavours.
	for n := 0; n <= 20; n++ {
		for k := -30; k <= 30; k++ {
			ks := strconv.Itoa(k)
			fl := (n + k + 60) % 3 // which element flavour: spreads the three over the grid
			boundary := k == -n-1 || k == -n || k == -1 || k == 0 || k == n-1 || k == n
			half := thorough || boundary || (n+k+60)%2 == 0
			third := thorough || boundary || (n+k+60)%3 == 0
			if !thorough {
				c16Emit(emit, "json", "index", c16Arr(n, fl), ks)
				c16Emit(emit, "json", "elem", c16Arr(n, fl), "/"+ks)
				if half {
					c16Emit(emit, "yaml", "index", c16Arr(n, (fl+1)%3), ks)
					c16Emit(emit, "yaml", "elem", c16Arr(n, (fl+1)%3), "/"+ks)
				}
			} else {
				for f := 0; f < 3; f++ {
					c16Emit(emit, "json", "index", c16Arr(n, f), ks)
					c16Emit(emit, "json", "elem", c16Arr(n, f), "/"+ks)
					c16Emit(emit, "yaml", "index", c16Arr(n, f), ks)
					c16Emit(emit, "yaml", "elem", c16Arr(n, f), "/"+ks)
				}
			}
			if half {
				c16Emit(emit, "jsonl", "index", c16Rows(n, (n+k+60)%4 < 2), ks)
			}
			if third {
				c16Emit(emit, "jsonl", "elem", c16Rows(n, false), "/"+ks)
			}
			if thorough || (boundary && n%2 == 0) {
				c16Emit(emit, "jsonl", "index", c16Rows(n, (n+k+60)%4 >= 2), ks)
				c16Emit(emit, "jsonl", "elem", c16Rows(n, true), "/"+ks)
			}
			if k >= 0 && third {
				c16Emit(emit, "json", "not", c16Arr(n, fl), ks)
				c16Emit(emit, "yaml", "not", c16Arr(n, fl), ks)
				if thorough || boundary {
					c16Emit(emit, "jsonl", "not", c16Rows(n, k%2 == 0), ks)
				}
			}
		}
	}

	// 1b. jsonl tables whose heading row carries the names "-1", "-2", "x": a negative
	//     "index" is a column name for the table indexer
	for n := 0; n <= 6; n++ {
		tbl := c16Val{Kind: "arr", L: []c16Val{}}
		for i := 0; i < n; i++ {
			var row c16Val
			switch {
			case i == 0:
				row = c16Val{Kind: "arr", L: []c16Val{{Kind: "str", S: "-1"}, {Kind: "str", S: "-2"}, {Kind: "str", S: "x"}, {Kind: "str", S: "-1"}}}
			case i == 3:
				row = c16Val{Kind: "arr", L: []c16Val{{Kind: "num", Z: 30}, {Kind: "bool", B: true}}} // short row
			case i == 4:
				row = c16Val{Kind: "arr", L: []c16Val{{Kind: "str", S: ""}}} // blank row
			default:
				row = c16Val{Kind: "arr", L: []c16Val{{Kind: "num", Z: int64(10 * i)}, {Kind: "str", S: fmt.Sprintf("b%d", i)}, {Kind: "null"}, {Kind: "num", Z: int64(-i)}}}
			}
			tbl.L = append(tbl.L, row)
		}
		for _, ps := range [][]string{{"-1"}, {"-2"}, {"x"}, {"-3"}, {"zz"}, {"-1", "-2"}, {"x", "-1"}, {"-2", "zz"}, {"1", "-1"}, {"-" + strconv.Itoa(n)}} {
			c16Emit(emit, "jsonl", "index", tbl, ps...)
		}
		for _, k := range []string{"-1", "-2", "x"} {
			c16Emit(emit, "jsonl", "index", c16Rows(n, false), k) // struct shaped rows are not table rows
		}
	}

	// 2. exhaustive multi-index on the boundary set, lengths 0..6
	for n := 0; n <= 6; n++ {
		bs := []int{-n - 1, -n, -1, 0, n - 1, n}
		for _, a := range bs {
			for _, b := range bs {
				pa, pb := strconv.Itoa(a), strconv.Itoa(b)
				c16Emit(emit, "json", "index", c16Arr(n, 2), pa, pb)
				c16Emit(emit, "yaml", "index", c16Arr(n, 0), pa, pb)
				if thorough {
					c16Emit(emit, "json", "index", c16Arr(n, 1), pa, pb, pa)
					c16Emit(emit, "json", "not", c16Arr(n, 0), pa, pb)
					c16Emit(emit, "jsonl", "index", c16Rows(n, true), pa, pb)
				}
			}
		}
	}

	// 3. malformed parameters
	for _, bp := range c16BadParams {
		for _, f := range []string{"json", "yaml"} {
			c16Emit(emit, f, "index", c16Arr(3, 0), bp)
			c16Emit(emit, f, "elem", c16Arr(3, 0), "/"+bp)
			c16Emit(emit, f, "not", c16Arr(3, 0), bp)
			c16Emit(emit, f, "index", c16Arr(3, 1), "0", bp)
		}
		c16Emit(emit, "jsonl", "index", c16Rows(3, false), bp)
		c16Emit(emit, "jsonl", "elem", c16Rows(3, false), "/"+bp)
	}
	for _, path := range []string{"/", "//", "/1/", "/1//", "//1", "/1/0", ".1", ".1.", ",0", "/-1/", "1", "/0/k", "/4/k", "/4/K", "/4/zz", "/3/1", "/3/-3", "/3/-2"} {
		c16Emit(emit, "json", "elem", c16Arr(6, 2), path)
		c16Emit(emit, "yaml", "elem", c16Arr(6, 2), path)
	}
	for _, f := range []string{"json", "yaml"} {
		c16Emit(emit, f, "index", c16Arr(3, 0))
		c16Emit(emit, f, "index", c16Val{Kind: "num", Z: 5}, "0")
		c16Emit(emit, f, "elem", c16Val{Kind: "str", S: "abc"}, "/0")
	}

	// 4. random: maps and nested documents
	r := rand.New(rand.NewSource(seed))
	nrand := 400
	if thorough {
		nrand = 12000
	}
	for i := 0; i < nrand; i++ {
		f := []string{"json", "yaml"}[r.Intn(2)]
		obj := c16RandObj(r, 2, 1+r.Intn(6))
		pick := func() string {
			if r.Intn(6) == 0 {
				return c16KeyPool[r.Intn(len(c16KeyPool))] // maybe absent
			}
			return c16CaseVariant(r, obj.K[r.Intn(len(obj.K))])
		}
		switch r.Intn(8) {
		case 0, 1:
			c16Emit(emit, f, "index", obj, pick())
		case 2:
			c16Emit(emit, f, "index", obj, pick(), pick())
		case 3:
			c16Emit(emit, f, "not", obj, pick())
		case 4:
			c16Emit(emit, f, "elem", obj, "/"+pick())
		case 5, 6:
			// nested path: key then index / key
			k := obj.K[r.Intn(len(obj.K))]
			sub := obj.L[sort.SearchStrings(obj.K, k)]
			sep := []string{"/", ".", ",", ":"}[r.Intn(4)]
			var step string
			switch sub.Kind {
			case "arr":
				step = strconv.Itoa(r.Intn(2*len(sub.L)+5) - len(sub.L) - 2)
			case "obj":
				if len(sub.K) > 0 && r.Intn(4) != 0 {
					step = c16CaseVariant(r, sub.K[r.Intn(len(sub.K))])
				} else {
					step = "zz"
				}
			default:
				step = "0"
			}
			c16Emit(emit, f, "elem", obj, sep+c16CaseVariant(r, k)+sep+step)
		default:
			// random array, random 1-3 indexes
			n := r.Intn(21)
			arr := c16Val{Kind: "arr", L: []c16Val{}}
			for j := 0; j < n; j++ {
				arr.L = append(arr.L, c16RandVal(r, 1))
			}
			np := 1 + r.Intn(3)
			ps := []string{}
			for j := 0; j < np; j++ {
				ps = append(ps, strconv.Itoa(r.Intn(61)-30))
			}
			op := []string{"index", "index", "not"}[r.Intn(3)]
			c16Emit(emit, f, op, arr, ps...)
		}
	}
}

// Shrink: shorter documents, fewer parameters.
func (c16) Shrink(raw json.RawMessage) []any {
	var c c16Case
	if json.Unmarshal(raw, &c) != nil {
		return nil
	}
	doc, ok := c16ParseJSON(c.Doc)
	if !ok {
		return nil
	}
	var out []any
	add := func(d c16Val, ps []string) {
		b, err := json.Marshal(c16ToAny(d))
		if err == nil {
			out = append(out, c16Case{Fmt: c.Fmt, Op: c.Op, Doc: b, Params: ps})
		}
	}
	if doc.Kind == "arr" && len(doc.L) > 0 {
		d := doc
		d.L = doc.L[:len(doc.L)-1]
		add(d, c.Params)
	}
	if doc.Kind == "obj" && len(doc.L) > 1 {
		for i := range doc.K {
			d := c16Val{Kind: "obj"}
			for j := range doc.K {
				if j != i {
					d.K = append(d.K, doc.K[j])
					d.L = append(d.L, doc.L[j])
				}
			}
			add(d, c.Params)
		}
	}
	if len(c.Params) > 1 {
		for i := range c.Params {
			ps := append(append([]string{}, c.Params[:i]...), c.Params[i+1:]...)
			add(doc, ps)
		}
	}
	return out
}
