//go:build prop_c12 || prop_c14 || prop_all

package main

// Shared by C12 and C14: Go JSON values rendered as Gallina terms of type
// Model.Alter.json (object members sorted by key, numbers as their canonical
// text strconv.FormatFloat(f,'f',-1,64)).

import (
	"fmt"
	"sort"
	"strconv"

	"verifharness/coqlit"
)

// ---------- Go value -> Gallina json ----------

func c12Num(f float64) string { return strconv.FormatFloat(f, 'f', -1, 64) }

func c12Coq(v any) string {
	switch t := v.(type) {
	case nil:
		return "JNull"
	case bool:
		return coqlit.App("JBool", coqlit.Bool(t))
	case float64:
		return coqlit.App("JNum", coqlit.Bytes(c12Num(t)))
	case int:
		return coqlit.App("JNum", coqlit.Bytes(strconv.Itoa(t)))
	case string:
		return coqlit.App("JStr", coqlit.Bytes(t))
	case []any:
		e := make([]string, len(t))
		for i := range t {
			e[i] = c12Coq(t[i])
		}
		return coqlit.App("JArr", coqlit.List(e))
	case map[string]any:
		keys := make([]string, 0, len(t))
		for k := range t {
			keys = append(keys, k)
		}
		sort.Strings(keys)
		e := make([]string, len(keys))
		for i, k := range keys {
			e[i] = "(" + coqlit.Bytes(k) + ", " + c12Coq(t[k]) + ")"
		}
		return coqlit.App("JObj", coqlit.List(e))
	default:
		// a Go type outside the JSON shapes: can never equal a model value
		return coqlit.App("JStr", coqlit.Bytes(fmt.Sprintf("\x00%T", v)))
	}
}

