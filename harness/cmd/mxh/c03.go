//go:build prop_c03 || prop_all

package main

// C03 — Sequential programs give the same result under any schedule.
//
// A case is one generated murex program. It is executed in-process many times
// (10 quick / 60 thorough), every run under a different, seeded scheduling
// perturbation: the lang.VerifSetYield hook (process spawn / start / teardown),
// a changing GOMAXPROCS and noise goroutines. The observation is the list of
// DISTINCT (stdout, stderr, exit number, hang) results over the runs.
//
// Two families:
//   modelled  pipelines of out / tout / err / cast str / mtac / msort / null /
//             prefix / suffix / match / foreach-out joined by ; && || — the Coq
//             model predicts the bytes (Model/Pipeline.v); at most one stderr
//             writer per pipeline (the property's domain, lguard)
//   wide      if / switch / functions / variables / expressions / try / arrays:
//             no prediction, only run-to-run equality is judged (spec_ok)

import (
	"encoding/json"
	"fmt"
	"math/rand"
	"runtime"
	"strings"
	"sync"
	"sync/atomic"
	"time"

	"github.com/lmorg/murex/lang"

	"verifharness/coqlit"
)

type c03Stage struct {
	K string `json:"k"`           // out tout err cast mtac msort null prefix suffix each match
	W string `json:"w,omitempty"` // word / payload / pattern
	V string `json:"v,omitempty"` // second word (each: text after the variable, starts with ">")
	X string `json:"x,omitempty"` // each: name of the iteration variable; fdef/fcall: function name
	N int    `json:"n,omitempty"` // fdef/fcall: number of stderr lines the slow function writes
}

type c03Pipe struct {
	Conn   string     `json:"conn"` // Seq AndThen OrElse
	Stages []c03Stage `json:"stages"`
}

type c03Case struct {
	Class string    `json:"class"`
	Prog  []c03Pipe `json:"prog,omitempty"`
	Src   string    `json:"src"`
	Runs  int       `json:"runs"`
	Seed  int64     `json:"seed"`
}

type c03Run struct {
	Out   string `json:"out"`
	Err   string `json:"err"`
	Exit  int    `json:"exit"`
	Hang  bool   `json:"hang,omitempty"`
	Count int    `json:"count"`
}

type c03Obs struct {
	Distinct    []c03Run `json:"distinct"`
	Yields      int64    `json:"yields"`
	SlowRetries int      `json:"slow_retries,omitempty"` // runs repeated because the first deadline expired
}

type c03 struct{}

func init() { register("C03", c03{}) }

// ---------- murex source and Coq term of a modelled program ----------

func c03StageSrc(s c03Stage) string {
	switch s.K {
	case "out":
		return "out " + s.W
	case "tout":
		return "tout str \"" + strings.ReplaceAll(s.W, "\n", "\\n") + "\""
	case "err":
		return "err " + s.W
	case "cast":
		return "cast str"
	case "mtac", "msort", "null":
		return s.K
	case "prefix", "suffix", "match":
		return s.K + " " + s.W
	case "range": // a: [1..N]  ->  the lines 1 .. N
		return fmt.Sprintf("a: [1..%d]", s.N)
	case "tryeach": // loop whose body holds a try block that aborts at a non-last statement
		pre := ""
		if s.W != "" {
			pre = "out " + s.W + "; "
		}
		return "foreach " + s.X + " { " + s.V + " { " + pre + "false; out never }; out $" + s.X + " }"
	case "fdef": // definition of a SLOW stderr writer: N forks, N stderr lines W1..WN
		return fmt.Sprintf("function %s { a [1..%d] -> foreach i { err \"%s$i\" } }", s.X, s.N, s.W)
	case "fcall":
		return s.X
	case "each":
		return "foreach " + s.X + " { out \"" + s.W + "$" + s.X + s.V + "\" }" // V always starts with ">"
	}
	die("C03: bad stage kind %q", s.K)
	return ""
}

func c03StageCoq(s c03Stage) string {
	switch s.K {
	case "out":
		return coqlit.App("SOut", coqlit.Bytes(s.W+"\n"))
	case "tout":
		return coqlit.App("SOut", coqlit.Bytes(s.W))
	case "err":
		return coqlit.App("SErr", coqlit.Bytes(s.W+"\n"))
	case "cast":
		return "(SAll FId)"
	case "mtac":
		return "(SAll FRev)"
	case "msort":
		return "(SAll FSort)"
	case "null":
		return "(SAll FNull)"
	case "prefix":
		return coqlit.App("SLines", coqlit.App("LWrap", coqlit.Bytes(s.W), "[]"))
	case "suffix":
		return coqlit.App("SLines", coqlit.App("LWrap", "[]", coqlit.Bytes(s.W)))
	case "range":
		var b strings.Builder
		for i := 1; i <= s.N; i++ {
			fmt.Fprintf(&b, "%d\n", i)
		}
		return coqlit.App("SOut", coqlit.Bytes(b.String()))
	case "tryeach":
		// what the aborted block emitted: `out W` (if any) and the failing `false` itself, which
		// prints "false" without a newline; `out never` never runs
		pre := "false"
		if s.W != "" {
			pre = s.W + "\n" + pre
		}
		return coqlit.App("SLines", coqlit.App("LTryEach", coqlit.Bytes(s.X), coqlit.Bytes(pre)))
	case "fdef":
		return "(SOut [])" // defines the function: writes nothing, exit 0
	case "fcall":
		var b strings.Builder
		for i := 1; i <= s.N; i++ {
			fmt.Fprintf(&b, "%s%d\n", s.W, i)
		}
		return coqlit.App("SErr", coqlit.Bytes(b.String())) // never the last stage: its exit number is not observed
	case "each":
		return coqlit.App("SLines", coqlit.App("LEach", coqlit.Bytes(s.X), coqlit.Bytes(s.W), coqlit.Bytes(s.V)))
	case "match":
		return coqlit.App("SLines", coqlit.App("LMatch", coqlit.Bytes(s.W)))
	}
	die("C03: bad stage kind %q", s.K)
	return ""
}

func c03ProgSrc(p []c03Pipe) string {
	var b strings.Builder
	for i, pl := range p {
		if i > 0 {
			switch pl.Conn {
			case "Seq":
				b.WriteString("; ")
			case "AndThen":
				b.WriteString(" && ")
			case "OrElse":
				b.WriteString(" || ")
			}
		}
		for j, s := range pl.Stages {
			if j > 0 {
				b.WriteString(" | ")
			}
			b.WriteString(c03StageSrc(s))
		}
	}
	return b.String()
}

func c03ProgCoq(p []c03Pipe) string {
	items := make([]string, len(p))
	for i, pl := range p {
		st := make([]string, len(pl.Stages))
		for j, s := range pl.Stages {
			st[j] = c03StageCoq(s)
		}
		items[i] = "(" + pl.Conn + ", " + coqlit.List(st) + ")"
	}
	return coqlit.List(items)
}

// ---------- generator ----------

func c03Word(r *rand.Rand) string {
	const al = "abc"
	n := 1 + r.Intn(3)
	b := make([]byte, n)
	for i := range b {
		b[i] = al[r.Intn(len(al))]
	}
	return string(b)
}

func c03Source(r *rand.Rand, allowErr bool) c03Stage {
	switch x := r.Intn(10); {
	case x < 4:
		return c03Stage{K: "out", W: c03Word(r)}
	case x < 8 || !allowErr:
		n := 1 + r.Intn(4)
		ws := make([]string, n)
		for i := range ws {
			ws[i] = c03Word(r)
		}
		s := strings.Join(ws, "\n")
		if r.Intn(2) == 0 {
			s += "\n"
		}
		return c03Stage{K: "tout", W: s}
	default:
		return c03Stage{K: "err", W: c03Word(r)}
	}
}

func c03Method(r *rand.Rand) c03Stage {
	switch r.Intn(8) {
	case 0:
		return c03Stage{K: "cast"}
	case 1:
		return c03Stage{K: "mtac"}
	case 2:
		return c03Stage{K: "msort"}
	case 3:
		return c03Stage{K: "prefix", W: c03Word(r)}
	case 4:
		return c03Stage{K: "suffix", W: c03Word(r)}
	case 5:
		return c03Stage{K: "match", W: string("abc"[r.Intn(3)])}
	default:
		return c03Stage{K: "each", W: "<" + c03Word(r), V: ">", X: "l"}
	}
}

func c03GenPipe(r *rand.Rand, maxStages int) []c03Stage {
	n := 1 + r.Intn(maxStages)
	st := make([]c03Stage, 0, n)
	errUsed := false
	nEach := 0
	for j := 0; j < n; j++ {
		prevSilent := j > 0 && (st[j-1].K == "err" || st[j-1].K == "null")
		var s c03Stage
		switch {
		case j == 0 || prevSilent || r.Intn(5) == 0:
			// a stage that does not read: first stage, after a stage that writes no
			// stdout (err/null leave the pipe without a str data type), or at random
			s = c03Source(r, !errUsed)
		case j == n-1 && r.Intn(8) == 0:
			s = c03Stage{K: "null"}
		default:
			s = c03Method(r)
		}
		if s.K == "err" {
			errUsed = true
		}
		if s.K == "each" {
			// stages of one pipeline run concurrently: give every foreach its own
			// iteration variable (sharing one is known finding C03#1, see corpus)
			s.X = []string{"l", "m", "k", "q", "u"}[nEach%5]
			nEach++
		}
		st = append(st, s)
	}
	return st
}

func c03GenProg(r *rand.Rand, maxPipes, maxStages int) []c03Pipe {
	n := 1 + r.Intn(maxPipes)
	p := make([]c03Pipe, n)
	for i := range p {
		conn := "Seq"
		if i > 0 {
			switch r.Intn(5) {
			case 0, 1:
				conn = "AndThen"
			case 2:
				conn = "OrElse"
			}
		}
		st := c03GenPipe(r, maxStages)
		if conn != "Seq" {
			// the head of a && / || pipeline may be skipped; the stages behind it then read an
			// empty pipe that carries no data type, on which mtac (alone) prints "\n" instead of
			// nothing. That is data-type handling, not scheduling: keep it out of the vocabulary.
			for j := range st {
				if st[j].K == "mtac" {
					st[j].K = "msort"
				}
			}
		}
		p[i] = c03Pipe{Conn: conn, Stages: st}
	}
	return p
}

// wide vocabulary: deterministic programs, no byte-level prediction.
func c03GenWide(r *rand.Rand, id int) string {
	w := func() string { return c03Word(r) }
	n := func() int { return r.Intn(9) }
	parts := []string{}
	k := 1 + r.Intn(3)
	for i := 0; i < k; i++ {
		switch r.Intn(12) {
		case 0:
			parts = append(parts, fmt.Sprintf("v%d = %d; if { $v%d > %d } then { out big%s } else { out small%s }", i, n(), i, n(), w(), w()))
		case 1:
			parts = append(parts, fmt.Sprintf("function c03f%d_%d { out \"f:$1\" | prefix %s }; c03f%d_%d %s | mtac", id, i, w(), id, i, w()))
		case 2:
			parts = append(parts, fmt.Sprintf("try { out %s; err %s; out %s }", w(), w(), w()))
		case 3:
			parts = append(parts, fmt.Sprintf("switch { case { %d == %d } then { out one } case { true } then { out two%s } }", n(), n(), w()))
		case 4:
			parts = append(parts, fmt.Sprintf("%%[%d..%d] -> foreach i { out \"n$i\" } | suffix %s", n(), n()+3, w()))
		case 5:
			parts = append(parts, fmt.Sprintf("a%d = %%[%d,%d,%d]; $a%d -> foreach x { out ${ expr $x * %d } }", i, n(), n(), n(), i, n()))
		case 6:
			parts = append(parts, fmt.Sprintf("out %s | foreach l { if { $l == \"%s\" } then { out hit } else { out \"miss:$l\" } }", w(), w()))
		case 7:
			parts = append(parts, fmt.Sprintf("s%d = \"%s\"; out \"$s%d-$(s%d)\" | cast str | match %s || out nomatch", i, w(), i, i, string("abc"[r.Intn(3)])))
		case 8:
			parts = append(parts, fmt.Sprintf("tout json '[%d,%d,%d]' | format yaml", n(), n(), n()))
		case 9:
			parts = append(parts, fmt.Sprintf("trypipe { out %s | match %s | prefix %s }", w(), string("abc"[r.Intn(3)]), w()))
		case 10:
			parts = append(parts, fmt.Sprintf("x%d = %d; y%d = $x%d * %d + %d; out $y%d && out ok", i, n(), i, i, n(), n(), i))
		default:
			parts = append(parts, fmt.Sprintf("tout str \"%s\\n%s\\n%s\" | msort | foreach l { out \"[$l]\" } | mtac", w(), w(), w()))
		}
	}
	return strings.Join(parts, "; ")
}

func (c03) Gen(seed int64, tier string, emit func(any)) {
	runs, nModel, nWide := 10, 200, 40
	if tier == "thorough" {
		runs, nModel, nWide = 60, 600, 150
	}
	mk := func(class string, p []c03Pipe, s int64) c03Case {
		return c03Case{Class: class, Prog: p, Src: c03ProgSrc(p), Runs: runs, Seed: s}
	}
	// fixed shapes first (seed independent): the design's examples and the boundary cases
	fixed := [][]c03Pipe{
		{{"Seq", []c03Stage{{K: "out", W: "a"}, {K: "cast"}}}},
		{{"Seq", []c03Stage{{K: "err", W: "a"}, {K: "out", W: "b"}}}},
		{{"Seq", []c03Stage{{K: "out", W: "a"}, {K: "err", W: "b"}}}},
		{{"Seq", []c03Stage{{K: "out", W: "a"}, {K: "out", W: "b"}, {K: "out", W: "c"}}}},
		{{"Seq", []c03Stage{{K: "tout", W: "b\na\nc"}, {K: "mtac"}, {K: "each", W: "<", V: ">", X: "l"}, {K: "msort"}}}},
		{{"Seq", []c03Stage{{K: "out", W: "a"}}}, {"Seq", []c03Stage{{K: "out", W: "b"}}}, {"Seq", []c03Stage{{K: "err", W: "c"}}}, {"Seq", []c03Stage{{K: "out", W: "d"}}}},
		{{"Seq", []c03Stage{{K: "err", W: "a"}}}, {"AndThen", []c03Stage{{K: "out", W: "b"}, {K: "cast"}}}, {"AndThen", []c03Stage{{K: "out", W: "c"}}}},
		{{"Seq", []c03Stage{{K: "err", W: "a"}}}, {"AndThen", []c03Stage{{K: "out", W: "b"}}}, {"OrElse", []c03Stage{{K: "out", W: "c"}}}},
		{{"Seq", []c03Stage{{K: "out", W: "a"}}}, {"OrElse", []c03Stage{{K: "out", W: "b"}}}, {"OrElse", []c03Stage{{K: "out", W: "c"}}}, {"Seq", []c03Stage{{K: "out", W: "d"}}}},
		{{"Seq", []c03Stage{{K: "tout", W: "ab\ncb\nd"}, {K: "match", W: "b"}, {K: "suffix", W: "x"}, {K: "null"}}}, {"Seq", []c03Stage{{K: "out", W: "z"}}}},
	}
	for i, p := range fixed {
		emit(mk("fixed", p, int64(i)))
	}
	// `A | B ; END`: A writes stderr (one line, or a slow function of N forks and N lines), B does
	// not read its stdin and finishes first. Only executeProcess's wait for its predecessor keeps
	// END (same stream, next pipeline) behind A's output: C03_program_sequential says END is last.
	tail := 0
	for _, conn := range []string{"Seq", "AndThen"} {
		for _, end := range []c03Stage{{K: "err", W: "END"}, {K: "out", W: "END"}} {
			for _, b := range []c03Stage{{K: "out", W: "b"}, {K: "tout", W: "b"}} {
				emit(mk("tail", []c03Pipe{{"Seq", []c03Stage{{K: "err", W: "a"}, b}}, {conn, []c03Stage{end}}}, int64(100+tail)))
				for _, n := range []int{12, 60} {
					name := fmt.Sprintf("c03slow%d", n)
					emit(mk("tail-slow", []c03Pipe{
						{"Seq", []c03Stage{{K: "fdef", X: name, W: "s", N: n}}},
						{"Seq", []c03Stage{{K: "fcall", X: name, W: "s", N: n}, b}},
						{conn, []c03Stage{end}}}, int64(200+tail)))
				}
				tail++
			}
		}
	}
	// loop stage whose body runs a try / tryerr / trypipe block that aborts at a non-last
	// statement, piped into a stage that reads CONCURRENTLY: every one of the N lines must arrive
	// (a stream reference lost per aborted block makes the reader see EOF early, schedule dependent)
	readers := []c03Stage{{K: "each", W: "got ", V: "", X: "l"}, {K: "cast"}, {K: "prefix", W: "x"}, {K: "match", W: "a"}}
	tl := 0
	for _, kind := range []string{"try", "tryerr", "trypipe"} {
		for _, n := range []int{40, 120, 300} {
			pre := ""
			if tl%2 == 1 {
				pre = "p"
			}
			emit(mk("tryloop", []c03Pipe{{"Seq", []c03Stage{{K: "range", N: n}, {K: "tryeach", X: "i", W: pre, V: kind}, readers[tl%len(readers)]}}}, int64(300+tl)))
			tl++
		}
	}
	emit(mk("tryloop", []c03Pipe{{"Seq", []c03Stage{{K: "range", N: 200}, {K: "tryeach", X: "i", V: "try"}, {K: "each", W: "got ", X: "l"}, {K: "msort"}}}, {"Seq", []c03Stage{{K: "out", W: "END"}}}}, 320))
	emit(mk("tail", []c03Pipe{{"Seq", []c03Stage{{K: "err", W: "a"}, {K: "out", W: "b"}, {K: "out", W: "c"}}}, {"Seq", []c03Stage{{K: "err", W: "END"}}}}, 150))
	emit(mk("tail", []c03Pipe{{"Seq", []c03Stage{{K: "out", W: "x"}, {K: "err", W: "a"}, {K: "tout", W: "b"}}}, {"Seq", []c03Stage{{K: "err", W: "END"}}}, {"Seq", []c03Stage{{K: "out", W: "z"}}}}, 151))
	r := rand.New(rand.NewSource(seed))
	for i := 0; i < nModel; i++ {
		var p []c03Pipe
		switch {
		case i%4 == 0:
			p = c03GenProg(r, 1, 5) // one long pipeline
		case i%4 == 1:
			p = c03GenProg(r, 5, 1) // many one-stage pipelines: program order, && ||
		default:
			p = c03GenProg(r, 4, 4)
		}
		nst := 0
		for _, pl := range p {
			nst += len(pl.Stages)
		}
		class := "pipe1"
		if len(p) > 1 {
			class = "prog"
		}
		if nst >= 6 {
			class += "-big"
		}
		emit(mk(class, p, r.Int63()))
	}
	for i := 0; i < nWide; i++ {
		emit(c03Case{Class: "wide", Src: c03GenWide(r, i), Runs: runs, Seed: r.Int63()})
	}
}

// ---------- perturbed execution ----------

var c03Yields atomic.Int64

// c03Perturb installs a yield callback whose decisions are a function of
// (seed, number of the call): Gosched, a short sleep, or nothing.
func c03Perturb(seed int64, intensity int, victim int) func() {
	var n, starts, longs atomic.Uint64
	var slept atomic.Int64 // total injected sleep of this run, victim hold excluded
	// A run must not accumulate seconds of injected delay (a 400-iteration foreach passes the
	// yield points thousands of times): at most 4 long delays and 300 ms of sleep per run,
	// after that only Gosched.
	nap := func(d time.Duration) {
		if slept.Add(int64(d)) > int64(300*time.Millisecond) {
			runtime.Gosched()
			return
		}
		time.Sleep(d)
	}
	fn := func(site string) {
		k := n.Add(1)
		if site == "proc.start" {
			// one process per run (the victim-th to start) is held back for 25-60 ms, far longer
			// than any grace period: a stage that should be waited for is still running long after
			// its successors have finished
			if s := starts.Add(1); victim >= 0 && int(s-1) == victim {
				c03Yields.Add(1)
				d := time.Duration(25+(uint64(seed)>>7)%36) * time.Millisecond
				if (uint64(seed)>>3)%4 == 0 {
					// now and then far longer: a bounded wait that polls with short sleeps
					// lasts much longer than its nominal length on a busy scheduler
					d = time.Duration(150+(uint64(seed)>>7)%100) * time.Millisecond
				}
				time.Sleep(d)
				return
			}
		}
		h := uint64(seed)*0x9E3779B97F4A7C15 + k*0xBF58476D1CE4E5B9
		h ^= h >> 31
		h *= 0x94D049BB133111EB
		h ^= h >> 29
		c03Yields.Add(1)
		if (site == "proc.start" || site == "sched.spawn") && (h>>40)%6 == 0 && longs.Add(1) <= 4 {
			// 1 in 6 (at most 4 per run): a LONG delay of 2-15 ms at process spawn / start
			nap(time.Duration(2000+(h>>12)%13000) * time.Microsecond)
			return
		}
		switch h % 8 {
		case 0, 1:
			runtime.Gosched()
		case 2:
			nap(time.Duration((h>>8)%200) * time.Microsecond)
		case 3:
			if intensity > 1 {
				nap(time.Duration((h>>8)%1500) * time.Microsecond)
			}
		}
	}
	lang.VerifSetYield(fn)
	c03InstallStreamYield(fn)
	return func() {
		lang.VerifSetYield(nil)
		c03InstallStreamYield(nil)
	}
}

func c03Max(a, b int) int {
	if a > b {
		return a
	}
	return b
}

func c03Noise(stop chan struct{}, k int) *sync.WaitGroup {
	var wg sync.WaitGroup
	for i := 0; i < k; i++ {
		wg.Add(1)
		go func() {
			defer wg.Done()
			x := 0
			for {
				select {
				case <-stop:
					return
				default:
				}
				for j := 0; j < 2000; j++ {
					x += j
				}
				runtime.Gosched()
			}
		}()
	}
	return &wg
}

func c03RunAll(c c03Case) c03Obs {
	var obs c03Obs
	idx := map[string]int{}
	r := rand.New(rand.NewSource(c.Seed))
	procs := []int{1, 2, 4, 8, runtime.NumCPU()}
	old := runtime.GOMAXPROCS(0)
	defer runtime.GOMAXPROCS(old)
	y0 := c03Yields.Load()
	nproc := 0
	for _, pl := range c.Prog {
		nproc += len(pl.Stages)
	}
	if nproc == 0 {
		nproc = 4 + strings.Count(c.Src, "|") + strings.Count(c.Src, ";")
	}
	// per-run deadline: scaled with the size of the program (processes + loop iterations)
	size := nproc
	for _, pl := range c.Prog {
		for _, s := range pl.Stages {
			size += 3 * s.N
		}
	}
	deadline := 30*time.Second + time.Duration(size)*150*time.Millisecond
	for i := 0; i < c.Runs; i++ {
		gmp := procs[r.Intn(len(procs))]
		noise := r.Intn(4)
		pseed, intensity := r.Int63(), 1+r.Intn(2)
		victim := -1
		if i%3 != 0 {
			// which process start (in start order) is held back; cycles through the program's
			// processes so every stage is the slow one in some run
			victim = (i + r.Intn(2)) % c03Max(nproc, 2)
		}
		// A run that does not finish before the deadline is only *suspected* to hang: the same
		// program is run again, under the same perturbation seed, up to 2 more times with a
		// deadline at least 5x longer (>= 90 s). A hang is recorded only if every attempt hangs:
		// a deadlock stays a deadlock, a run that was merely slow (loaded machine) completes.
		// Output is read only from a run that completed (RunMurex returns nothing on timeout).
		var res MxResult
		for attempt := 0; attempt < 3; attempt++ {
			dl := deadline
			if attempt > 0 {
				dl = 5 * deadline
				if dl < 90*time.Second {
					dl = 90 * time.Second
				}
			}
			runtime.GOMAXPROCS(gmp)
			stop := make(chan struct{})
			wg := c03Noise(stop, noise)
			var undo func()
			if i > 0 { // run 0 is unperturbed
				undo = c03Perturb(pseed, intensity, victim)
			}
			res = RunMurex(c.Src, dl)
			if undo != nil {
				undo()
			}
			close(stop)
			wg.Wait()
			if !res.Timeout {
				break
			}
			obs.SlowRetries++
		}
		run := c03Run{Out: res.Stdout, Err: res.Stderr, Exit: res.ExitNum, Hang: res.Timeout, Count: 1}
		if res.Err && !res.Timeout {
			run.Err = "<compile error>" + run.Err
		}
		key := fmt.Sprintf("%q|%q|%d|%v", run.Out, run.Err, run.Exit, run.Hang)
		if j, ok := idx[key]; ok {
			obs.Distinct[j].Count++
		} else {
			idx[key] = len(obs.Distinct)
			obs.Distinct = append(obs.Distinct, run)
		}
		if res.Timeout {
			break // the process state is unreliable after a hang
		}
	}
	obs.Yields = c03Yields.Load() - y0
	return obs
}

func (c03) Run(raw json.RawMessage) Result {
	var c c03Case
	if err := json.Unmarshal(raw, &c); err != nil {
		die("C03: bad case: %v", err)
	}
	if c.Runs <= 0 {
		c.Runs = 10
	}
	modelled := len(c.Prog) > 0
	if modelled {
		c.Src = c03ProgSrc(c.Prog) // the source is a function of the program, never trusted from the case
	}
	obs := c03RunAll(c)
	runs := make([]string, len(obs.Distinct))
	for i, d := range obs.Distinct {
		runs[i] = coqlit.App("mko", coqlit.Bytes(d.Out), coqlit.Bytes(d.Err), coqlit.Z(int64(d.Exit)), coqlit.Bool(d.Hang))
	}
	prog := "[]"
	if modelled {
		prog = c03ProgCoq(c.Prog)
	}
	coq := coqlit.App("mkcase", prog, coqlit.Bool(modelled), coqlit.List(runs))
	nst := 0
	for _, pl := range c.Prog {
		nst += len(pl.Stages)
	}
	// non-trivial: something actually runs concurrently or in sequence
	nontrivial := nst >= 2 || (!modelled && strings.ContainsAny(c.Src, "|;"))
	return Result{Obs: obs, Coq: coq, Nontrivial: nontrivial, Class: c.Class}
}

// Shrink: drop a pipeline, drop a stage, shorten a payload.
func (c03) Shrink(raw json.RawMessage) []any {
	var c c03Case
	if json.Unmarshal(raw, &c) != nil || len(c.Prog) == 0 {
		return nil
	}
	var out []any
	clone := func() []c03Pipe {
		p := make([]c03Pipe, len(c.Prog))
		for i := range c.Prog {
			p[i] = c03Pipe{Conn: c.Prog[i].Conn, Stages: append([]c03Stage(nil), c.Prog[i].Stages...)}
		}
		return p
	}
	emit := func(p []c03Pipe) {
		if len(p) == 0 {
			return
		}
		p[0].Conn = "Seq"
		defined := map[string]bool{}
		for _, pl := range p {
			if len(pl.Stages) == 0 {
				return
			}
			for _, s := range pl.Stages {
				if s.K == "fdef" {
					defined[s.X] = true
				}
				if s.K == "fcall" && !defined[s.X] {
					return // a call must keep its definition
				}
			}
		}
		if len(out) >= 8 { // every candidate costs Runs executions: keep a shrinking round cheap
			return
		}
		runs := c.Runs
		if runs > 20 {
			runs = 20
		}
		out = append(out, c03Case{Class: c.Class, Prog: p, Src: c03ProgSrc(p), Runs: runs, Seed: c.Seed})
	}
	for i := range c.Prog {
		p := clone()
		emit(append(p[:i], p[i+1:]...))
	}
	for i := range c.Prog {
		for j := range c.Prog[i].Stages {
			if len(c.Prog[i].Stages) > 1 {
				p := clone()
				p[i].Stages = append(p[i].Stages[:j], p[i].Stages[j+1:]...)
				emit(p)
			}
		}
	}
	return out
}
