//go:build prop_c27 || prop_all

package main

// C27 — Job IDs stay stable while jobs run.
// A case is a history of operations on a fresh lang.NewJobs() table with
// synthetic processes; after every operation the harness records the result,
// Jobs.List() and the raw slice (verif hook lang/verif_jobs.go).

import (
	"encoding/json"
	"fmt"
	"math/rand"
	"strconv"
	"strings"

	"github.com/lmorg/murex/lang"

	"verifharness/coqlit"
)

type c27Op struct {
	K string `json:"k"`           // add|addnil|term|gc|get|latest|list
	N int    `json:"n,omitempty"` // process number (add, term) or job id (get)
}

type c27Case struct {
	Src string  `json:"src"` // corpus|exh|rand
	Ops []c27Op `json:"ops"`
}

type c27Step struct {
	Res  string   `json:"res"`  // "", "p<k>", "err", "panic"
	List [][2]int `json:"list"` // (job id, process number)
	Raw  []int    `json:"raw"`  // process number, -1 = nil
}

type c27 struct{}

func init() { register("C27", c27{}) }

func c27Probes(nslots int) []c27Op {
	var o []c27Op
	for id := 0; id <= nslots+1; id++ {
		o = append(o, c27Op{"get", id})
	}
	return append(o, c27Op{"latest", 0})
}

// exhaustive canonical histories: add the next fresh process, terminate any
// added process, garbage-collect; Get for every id and GetLatest appended.
func c27Exhaustive(maxLen, maxProcs int, emit func(any)) {
	var rec func(prefix []c27Op, added int)
	rec = func(prefix []c27Op, added int) {
		if len(prefix) > 0 {
			ops := append(append([]c27Op(nil), prefix...), c27Probes(added)...)
			emit(c27Case{"exh", ops})
		}
		if len(prefix) == maxLen {
			return
		}
		if added < maxProcs {
			rec(append(prefix, c27Op{"add", added}), added+1)
		}
		for p := 0; p < added; p++ {
			rec(append(prefix, c27Op{"term", p}), added)
		}
		rec(append(prefix, c27Op{"gc", 0}), added)
	}
	rec(nil, 0)
}

func c27Random(r *rand.Rand, emit func(any)) {
	n := 4 + r.Intn(20)
	procs := 2 + r.Intn(7) // up to 8 processes
	var ops []c27Op
	added := 0
	slots := 0
	for i := 0; i < n; i++ {
		switch x := r.Intn(100); {
		case x < 28:
			if added < procs && r.Intn(10) < 8 {
				ops = append(ops, c27Op{"add", added})
				added++
			} else {
				ops = append(ops, c27Op{"add", r.Intn(procs)}) // re-add, or add out of order (possibly dead)
			}
			slots++
		case x < 31:
			ops = append(ops, c27Op{"addnil", 0})
			slots++
		case x < 58:
			ops = append(ops, c27Op{"term", r.Intn(procs)})
		case x < 78:
			ops = append(ops, c27Op{"gc", 0})
		case x < 92:
			ops = append(ops, c27Op{"get", r.Intn(slots+4) - 1})
		case x < 97:
			ops = append(ops, c27Op{"latest", 0})
		default:
			ops = append(ops, c27Op{"list", 0})
		}
	}
	ops = append(ops, c27Probes(slots)...)
	emit(c27Case{"rand", ops})
}

func (c27) Gen(seed int64, tier string, emit func(any)) {
	// boundary histories first
	emit(c27Case{"corpus", []c27Op{{"get", 0}, {"get", 1}, {"get", -1}, {"latest", 0}, {"gc", 0}, {"list", 0}}})
	emit(c27Case{"corpus", []c27Op{{"add", 0}, {"add", 1}, {"add", 2}, {"term", 1}, {"gc", 0}, {"get", 2}, {"get", 3}, {"term", 2}, {"gc", 0},
		{"add", 3}, {"get", 2}, {"latest", 0}, {"term", 0}, {"gc", 0}, {"get", 1}, {"get", 2}, {"term", 3}, {"gc", 0}, {"latest", 0}}})
	emit(c27Case{"corpus", []c27Op{{"addnil", 0}, {"add", 0}, {"addnil", 0}, {"gc", 0}, {"term", 0}, {"get", 2}, {"gc", 0}, {"get", 1}}})
	emit(c27Case{"corpus", []c27Op{{"term", 0}, {"add", 0}, {"add", 1}, {"add", 1}, {"get", 1}, {"get", 3}, {"gc", 0}, {"term", 1}, {"gc", 0}, {"get", 1000000}}})
	r := rand.New(rand.NewSource(seed))
	if tier == "thorough" {
		c27Exhaustive(7, 3, emit)
		for i := 0; i < 12000; i++ {
			c27Random(r, emit)
		}
	} else {
		c27Exhaustive(5, 3, emit)
		for i := 0; i < 900; i++ {
			c27Random(r, emit)
		}
	}
}

func c27OptNat(n int) string {
	if n < 0 {
		return "None"
	}
	return "(Some " + coqlit.Nat(n) + ")"
}

func (c27) Run(raw json.RawMessage) Result {
	var c c27Case
	if err := json.Unmarshal(raw, &c); err != nil {
		die("C27: bad case: %v", err)
	}
	jobs := lang.NewJobs()
	pool := map[int]*lang.Process{}
	num := map[*lang.Process]int{}
	proc := func(n int) *lang.Process {
		if p, ok := pool[n]; ok {
			return p
		}
		p := new(lang.Process)
		pool[n] = p
		num[p] = n
		return p
	}
	var (
		steps                    []c27Step
		coqOps, coqObs           []string
		nAdd, nTerm, nGC         int
		maxLen                   int
		reuse, gap, termThenKept bool
	)
	for _, o := range c.Ops {
		var st c27Step
		var coqRes = "RNone"
		func() {
			defer func() {
				if r := recover(); r != nil {
					st.Res = "panic"
					coqRes = "RPanic"
				}
			}()
			got := func(p *lang.Process, err error) {
				if err != nil || p == nil {
					st.Res = "err"
					coqRes = "(RGot None)"
					return
				}
				st.Res = "p" + strconv.Itoa(num[p])
				coqRes = "(RGot (Some " + coqlit.Nat(num[p]) + "))"
			}
			switch o.K {
			case "add":
				jobs.Add(proc(o.N))
				nAdd++
			case "addnil":
				jobs.Add(nil)
			case "term":
				proc(o.N).SetTerminatedState(true)
				nTerm++
			case "gc":
				jobs.GarbageCollect()
				nGC++
			case "get":
				got(jobs.Get(o.N))
			case "latest":
				got(jobs.GetLatest())
			case "list":
				jobs.List()
			default:
				die("C27: bad op %q", o.K)
			}
		}()
		var cl, cr []string
		func() {
			defer func() {
				if r := recover(); r != nil {
					st.Res = "panic"
					coqRes = "RPanic"
				}
			}()
			for _, j := range jobs.List() {
				id, err := strconv.Atoi(strings.TrimPrefix(j.JobId, "%"))
				if err != nil || !strings.HasPrefix(j.JobId, "%") {
					id = 0
				}
				st.List = append(st.List, [2]int{id, num[j.Process]})
				cl = append(cl, fmt.Sprintf("(%s, %s)", coqlit.Nat(id), coqlit.Nat(num[j.Process])))
			}
			rawSlice := jobs.VerifRaw()
			if (o.K == "add" || o.K == "addnil") && len(rawSlice) <= maxLen {
				reuse = true
			}
			if len(rawSlice) > maxLen {
				maxLen = len(rawSlice)
			}
			for i, p := range rawSlice {
				if p == nil {
					st.Raw = append(st.Raw, -1)
					cr = append(cr, "None")
					if i < len(rawSlice)-1 && o.K == "gc" {
						gap = true
					}
				} else {
					st.Raw = append(st.Raw, num[p])
					cr = append(cr, c27OptNat(num[p]))
				}
			}
			if o.K == "gc" && len(st.List) > 0 {
				termThenKept = true
			}
		}()
		steps = append(steps, st)
		switch o.K {
		case "add":
			coqOps = append(coqOps, coqlit.App("Add", coqlit.Nat(o.N)))
		case "addnil":
			coqOps = append(coqOps, "AddNil")
		case "term":
			coqOps = append(coqOps, coqlit.App("Terminate", coqlit.Nat(o.N)))
		case "gc":
			coqOps = append(coqOps, "GC")
		case "get":
			coqOps = append(coqOps, coqlit.App("Get", coqlit.Z(int64(o.N))))
		case "latest":
			coqOps = append(coqOps, "Latest")
		case "list":
			coqOps = append(coqOps, "ListJobs")
		}
		coqObs = append(coqObs, coqlit.Record("so_res", coqRes, "so_list", coqlit.List(cl), "so_raw", coqlit.List(cr)))
	}
	class := c.Src + "/plain"
	switch {
	case reuse && gap:
		class = c.Src + "/reuse+gap"
	case reuse:
		class = c.Src + "/reuse"
	case gap:
		class = c.Src + "/gap"
	}
	_ = termThenKept
	return Result{
		Obs:        steps,
		Coq:        coqlit.Record("c_ops", coqlit.List(coqOps), "c_obs", coqlit.List(coqObs)),
		Nontrivial: nAdd > 0 && nTerm > 0 && nGC > 0,
		Class:      class,
	}
}

// Shrink: drop one operation at a time.
func (c27) Shrink(raw json.RawMessage) []any {
	var c c27Case
	if err := json.Unmarshal(raw, &c); err != nil {
		return nil
	}
	var out []any
	for i := range c.Ops {
		ops := append(append([]c27Op(nil), c.Ops[:i]...), c.Ops[i+1:]...)
		if len(ops) > 0 {
			out = append(out, c27Case{c.Src, ops})
		}
	}
	return out
}
