//go:build prop_c21 || prop_all

package main

// C21 — External commands report their real exit status.
// Exhaustive: every exit status 0..255 and every terminating signal, in five
// contexts (alone, &&, ||, try, trypipe).

import (
	"encoding/json"
	"fmt"
	"strconv"
	"strings"
	"time"

	"verifharness/coqlit"
)

type c21Case struct {
	Ctx  string `json:"ctx"`  // Alone|AndThen|OrElse|InTry|InTryPipe
	Kind string `json:"kind"` // exit|signal
	N    int    `json:"n"`
}

type c21Obs struct {
	Exit    int    `json:"exit"`
	Next    bool   `json:"next"`
	Timeout bool   `json:"timeout,omitempty"`
	Raw     string `json:"raw,omitempty"`
}

type c21 struct{}

func init() { register("C21", c21{}) }

// signals whose default action terminates the process (Linux numbering)
var c21Signals = []int{1, 2, 3, 4, 5, 6, 7, 8, 9, 10, 11, 12, 13, 14, 15, 16, 24, 25, 26, 27, 29, 30, 31}

var c21Ctxs = []string{"Alone", "AndThen", "OrElse", "InTry", "InTryPipe"}

func (c21) Gen(seed int64, tier string, emit func(any)) {
	// corpus first: the design-phase witness F21
	emit(c21Case{"AndThen", "signal", 9})
	for _, ctx := range c21Ctxs {
		for n := 0; n <= 255; n++ {
			emit(c21Case{ctx, "exit", n})
		}
		for _, s := range c21Signals {
			emit(c21Case{ctx, "signal", s})
		}
	}
}

func c21Helper(c c21Case) string {
	if c.Kind == "exit" {
		return fmt.Sprintf("sh -c 'exit %d'", c.N)
	}
	// `env --default-signal` resets every signal disposition first: a check started in the background by a
	// shell without job control inherits SIGINT/SIGQUIT as ignored, and the helper would then survive them.
	return fmt.Sprintf("env --default-signal sh -c 'ulimit -c 0; kill -%d $$; sleep 5'", c.N)
}

func (c21) Run(raw json.RawMessage) Result {
	var c c21Case
	if err := json.Unmarshal(raw, &c); err != nil {
		die("C21: bad case: %v", err)
	}
	h := c21Helper(c)
	var o c21Obs
	// program 1: the exit number of the external command itself
	r1 := RunMurex(h+"; exitnum", 20*time.Second)
	o.Timeout = r1.Timeout
	o.Raw = r1.Stdout
	n, err := strconv.Atoi(strings.TrimSpace(r1.Stdout))
	if err != nil {
		n = -99999
	}
	o.Exit = n
	// program 2: does the follow-on command run
	var prog string
	switch c.Ctx {
	case "Alone":
		prog = h + "; out ran"
	case "AndThen":
		prog = h + " && out ran"
	case "OrElse":
		prog = h + " || out ran"
	case "InTry":
		prog = "try { " + h + "; out ran }"
	case "InTryPipe":
		prog = "trypipe { " + h + "; out ran }"
	default:
		die("C21: bad ctx %q", c.Ctx)
	}
	r2 := RunMurex(prog, 20*time.Second)
	o.Timeout = o.Timeout || r2.Timeout
	o.Next = strings.Contains(r2.Stdout, "ran")

	var w string
	if c.Kind == "exit" {
		w = coqlit.App("Exited", coqlit.Z(int64(c.N)))
	} else {
		w = coqlit.App("Signaled", coqlit.Z(int64(c.N)))
	}
	coq := coqlit.Record("c_ctx", c.Ctx, "c_wait", w,
		"c_obs", coqlit.Record("o_exit", coqlit.Z(int64(o.Exit)), "o_next", coqlit.Bool(o.Next)))
	return Result{Obs: o, Coq: coq, Nontrivial: c.Kind == "signal" || c.N != 0, Class: c.Ctx + "/" + c.Kind}
}
