//go:build prop_c07 || prop_all

package main

// C07 — Logical operators inside expressions follow truthiness.
// Two kinds of case:
//   expr:  a token list using && || ?: ?? over boolean, numeric, string and null
//          operands and comparison sub-expressions (nested groups), evaluated by
//          expressions.ExecuteExpr in process;
//   truth: one literal value pushed through the five places that test
//          truthiness: (v && true), (v || false), (v ?: 'ALT!'), if { v }, v -> !.

import (
	"encoding/json"
	"fmt"
	"math/rand"
	"strconv"
	"strings"
	"time"

	"verifharness/coqlit"
)

type c07Cond struct {
	T string `json:"t"` // text printed by the condition block (out 'T')
	X int    `json:"x"` // how the block ends: 0 nothing, 1 `false -s`, 3 `sh -c 'exit 3'`, -1 `and { out y }`
}

type c07Case struct {
	Kind  string    `json:"kind"` // expr | truth | builtin
	Toks  []exprTok `json:"toks,omitempty"`
	Val   *exprTok  `json:"val,omitempty"`
	B     string    `json:"b,omitempty"` // if | and | or | while | not
	Neg   bool      `json:"neg,omitempty"`
	Conds []c07Cond `json:"conds,omitempty"` // while: [A, B]
	K     int       `json:"k,omitempty"`     // while: A for the first K evaluations, then B up to 4, then STOP
}

type c07BObs struct {
	Ok    bool     `json:"ok"`
	Flag  bool     `json:"flag"`
	Exit  int      `json:"exit"`
	Count int      `json:"count"`
	Conds []string `json:"conds,omitempty"`
	Raw   string   `json:"raw,omitempty"`
}

type c07TruthObs struct {
	Ok    bool   `json:"ok"`
	And   bool   `json:"and"`
	Or    bool   `json:"or"`
	Elvis bool   `json:"elvis"`
	If    bool   `json:"if"`
	Not   bool   `json:"not"`
	Raw   string `json:"raw,omitempty"`
}

type c07 struct{}

func init() { register("C07", c07{}) }

var c07Logic = []string{"&&", "||", "?:", "??"}

var c07Words = []string{"", "0", "null", "false", "no", "off", "fail", "failed", "disabled",
	"NULL", "False", "NO", "Off", "OFF", "FAIL", "Failed", "DISABLED", "fAiLeD",
	" no", "no ", " fail ", "\toff", "  0  ", " ", "   ",
	"true", "yes", "on", "1", "x", "ok", "enabled", "pass", "00", "0.0", "-0", "nul", "nulll", "fals", "falsee",
	"n", "offf", "of", "failing", "faile", "disable", "n o", "f a i l", "0 0", "none", "nil", "-1", "zero", "No!", "#no"}

var c07Nums = []string{"0", "1", "-1", "0.0", "-0", "2", "0.5", "00", "10", "-0.0", "3.", "0.000001"}

func c07Operands() []exprTok {
	var v []exprTok
	v = append(v, exprBool(true), exprBool(false), exprNull())
	for _, n := range []string{"0", "1", "-1", "0.0", "-0"} {
		v = append(v, exprNum(n))
	}
	for _, s := range []string{"", "no", "OFF", " fail ", "x", "null", "0", "False", "disabled", "failed", "Yes"} {
		v = append(v, exprStr(s))
	}
	return v
}

type c07Gen struct{ r *rand.Rand }

func (g *c07Gen) lit() exprTok {
	switch g.r.Intn(10) {
	case 0, 1:
		return exprBool(g.r.Intn(2) == 0)
	case 2:
		return exprNull()
	case 3, 4, 5:
		return exprNum(c07Nums[g.r.Intn(len(c07Nums))])
	default:
		return exprStr(c07Words[g.r.Intn(len(c07Words))])
	}
}

// cmp: number REL number (binds tighter than every logical operator)
func (g *c07Gen) cmp() []exprTok {
	rel := []string{"<", "<=", ">", ">=", "==", "!="}
	a := exprNum(c07Nums[g.r.Intn(len(c07Nums))])
	b := exprNum(c07Nums[g.r.Intn(len(c07Nums))])
	if g.r.Intn(3) == 0 {
		// with a little arithmetic
		return []exprTok{a, exprOp("+"), exprNum("1"), exprOp(rel[g.r.Intn(len(rel))]), b, exprOp("*"), exprNum("2")}
	}
	return []exprTok{a, exprOp(rel[g.r.Intn(len(rel))]), b}
}

func (g *c07Gen) operand(depth int) []exprTok {
	switch k := g.r.Intn(10); {
	case k < 2 && depth > 0:
		return []exprTok{exprGroup(g.chain(depth-1, 2))}
	case k < 4:
		if g.r.Intn(2) == 0 && depth > 0 {
			return []exprTok{exprGroup(g.cmp())}
		}
		return g.cmp()
	default:
		return []exprTok{g.lit()}
	}
}

// chain: operand (LOGIC operand)*, at least min operands
func (g *c07Gen) chain(depth, min int) []exprTok {
	n := min + g.r.Intn(4)
	ts := g.operand(depth)
	for i := 1; i < n; i++ {
		ts = append(ts, exprOp(c07Logic[g.r.Intn(len(c07Logic))]))
		ts = append(ts, g.operand(depth)...)
	}
	return ts
}

func (c07) Gen(seed int64, tier string, emit func(any)) {
	// truth probes: every word, number, boolean, null (seed independent)
	for _, w := range c07Words {
		if strings.ContainsAny(w, "'") {
			continue
		}
		t := exprStr(w)
		emit(c07Case{Kind: "truth", Val: &t})
	}
	for _, n := range c07Nums {
		t := exprNum(n)
		emit(c07Case{Kind: "truth", Val: &t})
	}
	for _, t := range []exprTok{exprBool(true), exprBool(false), exprNull()} {
		t := t
		emit(c07Case{Kind: "truth", Val: &t})
	}
	// statement-level builtins on the same words
	bw := []string{"", "yes", "no", "OFF", " fail ", "x", "0", "null", "False", "disabled", "failed", "1", "nul", " No\t", "true", "00"}
	for _, w := range bw {
		for _, x := range []int{0, 1, 3, -1} {
			for _, neg := range []bool{false, true} {
				emit(c07Case{Kind: "builtin", B: "if", Neg: neg, Conds: []c07Cond{{w, x}}})
			}
		}
		emit(c07Case{Kind: "builtin", B: "not", Conds: []c07Cond{{w, 0}}})
	}
	emit(c07Case{Kind: "builtin", B: "not", Conds: []c07Cond{{"", 1}}})
	sw := []string{"yes", "no", "", "OFF", " fail ", "x"}
	for _, b := range []string{"and", "or"} {
		for _, neg := range []bool{false, true} {
			for _, w1 := range sw {
				emit(c07Case{Kind: "builtin", B: b, Neg: neg, Conds: []c07Cond{{w1, 0}}})
				for _, w2 := range sw {
					emit(c07Case{Kind: "builtin", B: b, Neg: neg, Conds: []c07Cond{{w1, 0}, {w2, 0}}})
				}
			}
			emit(c07Case{Kind: "builtin", B: b, Neg: neg, Conds: []c07Cond{{"yes", 1}, {"yes", 0}}})
			emit(c07Case{Kind: "builtin", B: b, Neg: neg, Conds: []c07Cond{{"yes", 0}, {"no", -1}, {"x", 3}}})
		}
	}
	for _, neg := range []bool{false, true} {
		for _, w1 := range sw {
			for _, w2 := range sw {
				for _, k := range []int{0, 2} {
					emit(c07Case{Kind: "builtin", B: "while", Neg: neg, Conds: []c07Cond{{w1, 0}, {w2, 0}}, K: k})
				}
			}
		}
	}
	// every operand pair with every logical operator, bare and parenthesised in a larger expression
	ops := c07Operands()
	for _, a := range ops {
		for _, b := range ops {
			for _, o := range c07Logic {
				x, y := a, b
				y.W = 1
				emit(c07Case{Kind: "expr", Toks: []exprTok{x, {Op: o, W: 1}, y}})
			}
		}
	}
	r := rand.New(rand.NewSource(seed))
	g := &c07Gen{r}
	n := 700
	if tier == "thorough" {
		n = 8000
	}
	nb := 60
	if tier == "thorough" {
		nb = 600
	}
	for i := 0; i < nb; i++ {
		k := 1 + r.Intn(3)
		var cs []c07Cond
		for j := 0; j < k; j++ {
			cs = append(cs, c07Cond{bw[r.Intn(len(bw))], []int{0, 0, 0, 1, -1}[r.Intn(5)]})
		}
		emit(c07Case{Kind: "builtin", B: []string{"and", "or"}[r.Intn(2)], Neg: r.Intn(2) == 0, Conds: cs})
	}
	for i := 0; i < n; i++ {
		ts := g.chain(r.Intn(4), 2)
		ts = exprSpaces(r, ts, r.Intn(4))
		if r.Intn(3) == 0 {
			ts = []exprTok{exprGroup(ts)} // the form the property text uses: (a && b)
		}
		emit(c07Case{Kind: "expr", Toks: ts})
	}
}

func c07LitSource(t exprTok) string { return exprSource([]exprTok{t}) }

func c07Truth(v exprTok) (c07TruthObs, string) {
	o := c07TruthObs{Ok: true}
	var raw []string
	L := c07LitSource(v)
	asBool := func(src string) bool {
		e := exprEval(src)
		raw = append(raw, e.Value)
		if e.Kind != 0 || e.Type != "bool" {
			o.Ok = false
			return false
		}
		return e.Value == "true"
	}
	o.And = asBool(L + " && true")
	o.Or = asBool(L + " || false")
	e := exprEval(L + " ?: 'ALT!'")
	raw = append(raw, e.Value)
	if e.Kind != 0 {
		o.Ok = false
	}
	o.Elvis = !(e.Type == "str" && e.Value == "ALT!")
	// the same value through `if` and `!`: strings, booleans and null as the
	// output of `out`; numbers as the value of an expression statement
	stmt := "out " + L
	if v.Num != "" {
		stmt = "1 * " + L
	}
	r1 := RunMurex("if { "+stmt+" } then { out T } else { out F }", 20*time.Second)
	switch strings.TrimSpace(r1.Stdout) {
	case "T":
		o.If = true
	case "F":
		o.If = false
	default:
		o.Ok = false
	}
	r2 := RunMurex(stmt+" -> !", 20*time.Second)
	switch strings.TrimSpace(r2.Stdout) {
	case "false":
		o.Not = true
	case "true":
		o.Not = false
	default:
		o.Ok = false
	}
	raw = append(raw, strings.TrimSpace(r1.Stdout), strings.TrimSpace(r2.Stdout))
	o.Raw = strings.Join(raw, "|")
	coq := coqlit.Record("t_ok", coqlit.Bool(o.Ok), "t_and", coqlit.Bool(o.And), "t_or", coqlit.Bool(o.Or),
		"t_elvis", coqlit.Bool(o.Elvis), "t_if", coqlit.Bool(o.If), "t_not", coqlit.Bool(o.Not))
	return o, coq
}

func c07ValCoq(t exprTok) string {
	switch {
	case t.Num != "":
		f, err := strconv.ParseFloat(t.Num, 64)
		if err != nil {
			die("C07: bad number %q", t.Num)
		}
		return "(VNum " + exprFloatCoq(f) + ")"
	case t.Str != nil:
		return "(VStr " + coqlit.Bytes(*t.Str) + ")"
	case t.Bool != nil:
		return "(VBool " + coqlit.Bool(*t.Bool) + ")"
	}
	return "VNull"
}

func c07CondBody(c c07Cond) string {
	b := "out '" + c.T + "'"
	switch c.X {
	case 1:
		b += "; false -s"
	case 3:
		b += "; sh -c 'exit 3'"
	case -1:
		b += "; and { out y }"
	}
	return b
}

// c07ObserveCond runs the condition block alone: what the builtin will read from it.
func c07ObserveCond(body string) (string, int, string) {
	r := RunMurex(body, 20*time.Second)
	coq := coqlit.Record("cd_out", coqlit.Bytes(r.Stdout), "cd_exit", coqlit.Z(int64(r.ExitNum)))
	return r.Stdout, r.ExitNum, coq
}

func c07Builtin(c c07Case) Result {
	o := c07BObs{Ok: true}
	name := c.B
	if c.Neg {
		name = "!" + name
	}
	var condCoq []string
	addCond := func(body string) {
		out, ex, cq := c07ObserveCond(body)
		condCoq = append(condCoq, cq)
		o.Conds = append(o.Conds, fmt.Sprintf("%q/%d", out, ex))
	}
	bk := "BIf"
	switch c.B {
	case "if":
		if len(c.Conds) != 1 {
			die("C07: if needs one condition")
		}
		body := c07CondBody(c.Conds[0])
		addCond(body)
		r := RunMurex(name+" { "+body+" } then { out T } else { out F }", 20*time.Second)
		o.Raw = strings.TrimSpace(r.Stdout)
		switch o.Raw {
		case "T":
			o.Flag = true
		case "F":
		default:
			o.Ok = false
		}
		o.Count = 1
	case "not":
		bk = "BNot"
		if len(c.Conds) != 1 || c.Neg {
			die("C07: not needs one condition")
		}
		body := "out '" + c.Conds[0].T + "'"
		if c.Conds[0].X == 1 {
			body = "false -s"
		}
		addCond(body)
		r := RunMurex(body+" -> !", 20*time.Second)
		o.Raw = strings.TrimSpace(r.Stdout)
		switch o.Raw {
		case "true":
			o.Flag = true
		case "false":
		default:
			o.Ok = false
		}
		o.Count = 1
	case "and", "or":
		bk = "BAnd"
		if c.B == "or" {
			bk = "BOr"
		}
		p1, p2 := name, "n = 0; "+name
		for _, cd := range c.Conds {
			body := c07CondBody(cd)
			addCond(body)
			p1 += " { " + body + " }"
			p2 += " { n = $n + 1; " + body + " }"
		}
		r1 := RunMurex(p1+"; exitnum", 20*time.Second)
		e, err := strconv.Atoi(strings.TrimSpace(r1.Stdout))
		if err != nil {
			o.Ok = false
		}
		o.Exit = e
		o.Flag = e < 0
		r2 := RunMurex(p2+"; out $n", 20*time.Second)
		n, err := strconv.Atoi(strings.TrimSpace(r2.Stdout))
		if err != nil {
			o.Ok = false
		}
		o.Count = n
		o.Raw = strings.TrimSpace(r1.Stdout) + "|" + strings.TrimSpace(r2.Stdout)
	case "while":
		bk = "BWhile"
		if len(c.Conds) != 2 {
			die("C07: while needs two words")
		}
		stop := "false"
		if c.Neg {
			stop = "true"
		}
		a, b := "out '"+c.Conds[0].T+"'", "out '"+c.Conds[1].T+"'"
		for i := 0; i < 4; i++ {
			if i < c.K {
				addCond(a)
			} else {
				addCond(b)
			}
		}
		addCond("out '" + stop + "'")
		prog := fmt.Sprintf("i = 0; %s { if { $i < %d } then { %s } else { if { $i < 4 } then { %s } else { out '%s' } } } { i = $i + 1 }; out $i",
			name, c.K, a, b, stop)
		r := RunMurex(prog, 30*time.Second)
		n, err := strconv.Atoi(strings.TrimSpace(r.Stdout))
		if err != nil || r.Timeout {
			o.Ok = false
		}
		o.Count = n
		o.Flag = true
		o.Raw = strings.TrimSpace(r.Stdout)
	default:
		die("C07: unknown builtin %q", c.B)
	}
	bo := coqlit.Record("bo_ok", coqlit.Bool(o.Ok), "bo_flag", coqlit.Bool(o.Flag),
		"bo_exit", coqlit.Z(int64(o.Exit)), "bo_count", coqlit.N(uint64(max(o.Count, 0))))
	coq := "CaseBuiltin " + bk + " " + coqlit.Bool(c.Neg) + " " + coqlit.List(condCoq) + " " + bo
	return Result{Obs: o, Coq: coq, Nontrivial: true, Class: "builtin/" + name}
}

func (c07) Run(raw json.RawMessage) Result {
	var c c07Case
	if err := json.Unmarshal(raw, &c); err != nil {
		die("C07: bad case: %v", err)
	}
	if c.Kind == "builtin" {
		return c07Builtin(c)
	}
	if c.Kind == "truth" {
		if c.Val == nil {
			die("C07: truth case without value")
		}
		o, tc := c07Truth(*c.Val)
		return Result{Obs: o, Coq: "CaseTruth " + c07ValCoq(*c.Val) + " " + tc, Nontrivial: true, Class: "truth"}
	}
	src := exprSource(c.Toks)
	o := exprEval(src)
	nops := exprCountOps(c.Toks)
	class := fmt.Sprintf("expr/depth%d", exprDepth(c.Toks))
	if o.Kind == 1 {
		class = "expr/error"
	}
	return Result{Obs: o, Coq: "CaseExpr " + exprToksCoq(c.Toks) + " " + exprOracles(c.Toks) + " " + o.coq,
		Nontrivial: nops >= 1 && o.Kind == 0, Class: class}
}

func (c07) Shrink(raw json.RawMessage) []any {
	var c c07Case
	if err := json.Unmarshal(raw, &c); err != nil || c.Kind != "expr" {
		return nil
	}
	var out []any
	for _, s := range exprShrink(c.Toks) {
		if len(s) > 0 {
			out = append(out, c07Case{Kind: "expr", Toks: s})
		}
	}
	return out
}
