//go:build prop_c07 || prop_all

package main

// C07 — Logical operators inside expressions follow truthiness.
// Two kinds of case:
//   expr:  a token list using && || ?: ?? over boolean, numeric, string and null
//          operands and comparison sub-expressions (nested groups), evaluated by
//          expressions.ExecuteExpr in process;
//   truth: one literal value pushed through the five places that test
//          truthiness: (v && true), (v || false), (v ?: 'ALT!'), if { v }, v -> !.

import (
	"encoding/json"
	"fmt"
	"math/rand"
	"strconv"
	"strings"
	"time"

	"verifharness/coqlit"
)

type c07Case struct {
	Kind string    `json:"kind"` // expr | truth
	Toks []exprTok `json:"toks,omitempty"`
	Val  *exprTok  `json:"val,omitempty"`
}

type c07TruthObs struct {
	Ok    bool   `json:"ok"`
	And   bool   `json:"and"`
	Or    bool   `json:"or"`
	Elvis bool   `json:"elvis"`
	If    bool   `json:"if"`
	Not   bool   `json:"not"`
	Raw   string `json:"raw,omitempty"`
}

type c07 struct{}

func init() { register("C07", c07{}) }

var c07Logic = []string{"&&", "||", "?:", "??"}

var c07Words = []string{"", "0", "null", "false", "no", "off", "fail", "failed", "disabled",
	"NULL", "False", "NO", "Off", "OFF", "FAIL", "Failed", "DISABLED", "fAiLeD",
	" no", "no ", " fail ", "\toff", "  0  ", " ", "   ",
	"true", "yes", "on", "1", "x", "ok", "enabled", "pass", "00", "0.0", "-0", "nul", "nulll", "fals", "falsee",
	"n", "offf", "of", "failing", "faile", "disable", "n o", "f a i l", "0 0", "none", "nil", "-1", "zero", "No!", "#no"}

var c07Nums = []string{"0", "1", "-1", "0.0", "-0", "2", "0.5", "00", "10", "-0.0", "3.", "0.000001"}

func c07Operands() []exprTok {
	var v []exprTok
	v = append(v, exprBool(true), exprBool(false), exprNull())
	for _, n := range []string{"0", "1", "-1", "0.0", "-0"} {
		v = append(v, exprNum(n))
	}
	for _, s := range []string{"", "no", "OFF", " fail ", "x", "null", "0", "False", "disabled", "failed", "Yes"} {
		v = append(v, exprStr(s))
	}
	return v
}

type c07Gen struct{ r *rand.Rand }

func (g *c07Gen) lit() exprTok {
	switch g.r.Intn(10) {
	case 0, 1:
		return exprBool(g.r.Intn(2) == 0)
	case 2:
		return exprNull()
	case 3, 4, 5:
		return exprNum(c07Nums[g.r.Intn(len(c07Nums))])
	default:
		return exprStr(c07Words[g.r.Intn(len(c07Words))])
	}
}

// cmp: number REL number (binds tighter than every logical operator)
func (g *c07Gen) cmp() []exprTok {
	rel := []string{"<", "<=", ">", ">=", "==", "!="}
	a := exprNum(c07Nums[g.r.Intn(len(c07Nums))])
	b := exprNum(c07Nums[g.r.Intn(len(c07Nums))])
	if g.r.Intn(3) == 0 {
		// with a little arithmetic
		return []exprTok{a, exprOp("+"), exprNum("1"), exprOp(rel[g.r.Intn(len(rel))]), b, exprOp("*"), exprNum("2")}
	}
	return []exprTok{a, exprOp(rel[g.r.Intn(len(rel))]), b}
}

func (g *c07Gen) operand(depth int) []exprTok {
	switch k := g.r.Intn(10); {
	case k < 2 && depth > 0:
		return []exprTok{exprGroup(g.chain(depth-1, 2))}
	case k < 4:
		if g.r.Intn(2) == 0 && depth > 0 {
			return []exprTok{exprGroup(g.cmp())}
		}
		return g.cmp()
	default:
		return []exprTok{g.lit()}
	}
}

// chain: operand (LOGIC operand)*, at least min operands
func (g *c07Gen) chain(depth, min int) []exprTok {
	n := min + g.r.Intn(4)
	ts := g.operand(depth)
	for i := 1; i < n; i++ {
		ts = append(ts, exprOp(c07Logic[g.r.Intn(len(c07Logic))]))
		ts = append(ts, g.operand(depth)...)
	}
	return ts
}

func (c07) Gen(seed int64, tier string, emit func(any)) {
	// truth probes: every word, number, boolean, null (seed independent)
	for _, w := range c07Words {
		if strings.ContainsAny(w, "'") {
			continue
		}
		t := exprStr(w)
		emit(c07Case{Kind: "truth", Val: &t})
	}
	for _, n := range c07Nums {
		t := exprNum(n)
		emit(c07Case{Kind: "truth", Val: &t})
	}
	for _, t := range []exprTok{exprBool(true), exprBool(false), exprNull()} {
		t := t
		emit(c07Case{Kind: "truth", Val: &t})
	}
	// every operand pair with every logical operator, bare and parenthesised in a larger expression
	ops := c07Operands()
	for _, a := range ops {
		for _, b := range ops {
			for _, o := range c07Logic {
				x, y := a, b
				y.W = 1
				emit(c07Case{Kind: "expr", Toks: []exprTok{x, {Op: o, W: 1}, y}})
			}
		}
	}
	r := rand.New(rand.NewSource(seed))
	g := &c07Gen{r}
	n := 700
	if tier == "thorough" {
		n = 8000
	}
	for i := 0; i < n; i++ {
		ts := g.chain(r.Intn(4), 2)
		ts = exprSpaces(r, ts, r.Intn(4))
		if r.Intn(3) == 0 {
			ts = []exprTok{exprGroup(ts)} // the form the property text uses: (a && b)
		}
		emit(c07Case{Kind: "expr", Toks: ts})
	}
}

func c07LitSource(t exprTok) string { return exprSource([]exprTok{t}) }

func c07Truth(v exprTok) (c07TruthObs, string) {
	o := c07TruthObs{Ok: true}
	var raw []string
	L := c07LitSource(v)
	asBool := func(src string) bool {
		e := exprEval(src)
		raw = append(raw, e.Value)
		if e.Kind != 0 || e.Type != "bool" {
			o.Ok = false
			return false
		}
		return e.Value == "true"
	}
	o.And = asBool(L + " && true")
	o.Or = asBool(L + " || false")
	e := exprEval(L + " ?: 'ALT!'")
	raw = append(raw, e.Value)
	if e.Kind != 0 {
		o.Ok = false
	}
	o.Elvis = !(e.Type == "str" && e.Value == "ALT!")
	// the same value through `if` and `!`: strings, booleans and null as the
	// output of `out`; numbers as the value of an expression statement
	stmt := "out " + L
	if v.Num != "" {
		stmt = "1 * " + L
	}
	r1 := RunMurex("if { "+stmt+" } then { out T } else { out F }", 20*time.Second)
	switch strings.TrimSpace(r1.Stdout) {
	case "T":
		o.If = true
	case "F":
		o.If = false
	default:
		o.Ok = false
	}
	r2 := RunMurex(stmt+" -> !", 20*time.Second)
	switch strings.TrimSpace(r2.Stdout) {
	case "false":
		o.Not = true
	case "true":
		o.Not = false
	default:
		o.Ok = false
	}
	raw = append(raw, strings.TrimSpace(r1.Stdout), strings.TrimSpace(r2.Stdout))
	o.Raw = strings.Join(raw, "|")
	coq := coqlit.Record("t_ok", coqlit.Bool(o.Ok), "t_and", coqlit.Bool(o.And), "t_or", coqlit.Bool(o.Or),
		"t_elvis", coqlit.Bool(o.Elvis), "t_if", coqlit.Bool(o.If), "t_not", coqlit.Bool(o.Not))
	return o, coq
}

func c07ValCoq(t exprTok) string {
	switch {
	case t.Num != "":
		f, err := strconv.ParseFloat(t.Num, 64)
		if err != nil {
			die("C07: bad number %q", t.Num)
		}
		return "(VNum " + exprFloatCoq(f) + ")"
	case t.Str != nil:
		return "(VStr " + coqlit.Bytes(*t.Str) + ")"
	case t.Bool != nil:
		return "(VBool " + coqlit.Bool(*t.Bool) + ")"
	}
	return "VNull"
}

func (c07) Run(raw json.RawMessage) Result {
	var c c07Case
	if err := json.Unmarshal(raw, &c); err != nil {
		die("C07: bad case: %v", err)
	}
	if c.Kind == "truth" {
		if c.Val == nil {
			die("C07: truth case without value")
		}
		o, tc := c07Truth(*c.Val)
		return Result{Obs: o, Coq: "CaseTruth " + c07ValCoq(*c.Val) + " " + tc, Nontrivial: true, Class: "truth"}
	}
	src := exprSource(c.Toks)
	o := exprEval(src)
	nops := exprCountOps(c.Toks)
	class := fmt.Sprintf("expr/depth%d", exprDepth(c.Toks))
	if o.Kind == 1 {
		class = "expr/error"
	}
	return Result{Obs: o, Coq: "CaseExpr " + exprToksCoq(c.Toks) + " " + o.coq,
		Nontrivial: nops >= 1 && o.Kind == 0, Class: class}
}

func (c07) Shrink(raw json.RawMessage) []any {
	var c c07Case
	if err := json.Unmarshal(raw, &c); err != nil || c.Kind != "expr" {
		return nil
	}
	var out []any
	for _, s := range exprShrink(c.Toks) {
		if len(s) > 0 {
			out = append(out, c07Case{Kind: "expr", Toks: s})
		}
	}
	return out
}
