//go:build prop_c26 || prop_all

package main

// C26 — Named pipes can be used in any order without crashing the shell.
// One case is a BATCH of independent registries (pipes.NewNamed()), each with a
// list of phases of API calls. The batch runs in a CHILD process, all
// registries concurrently, and after each phase the child waits out the
// two-second grace period of Close once for the whole batch. If the child dies
// (a panic in a delayed closePipe goroutine kills the process) every registry
// of the batch is re-run in its own child so the culprit is identified.

import (
	"bytes"
	"encoding/json"
	"fmt"
	"math/rand"
	"os"
	"os/exec"
	"path/filepath"
	"runtime"
	"sort"
	"strings"
	"sync"
	"sync/atomic"
	"time"

	"github.com/lmorg/murex/builtins/pipes/null"
	"github.com/lmorg/murex/lang/pipes"
	"github.com/lmorg/murex/lang/stdio"

	"verifharness/coqlit"
)

type c26Op struct {
	K string `json:"k"` // create|expose|close|delete|get|dump
	N int    `json:"n"` // 0 null, 1 p, 2 q, 3 r
}

type c26Run struct {
	Phases [][]c26Op `json:"phases"`
}

// c26Storm: ONE registry; K pipes created and closed at once, W workers running
// create/get/dump/delete (every 5th round create/get/close on a fresh name) on
// names of their own for Ms milliseconds across the expiry of the grace period.
// Races: racing rounds run meanwhile — in each, W goroutines are released
// together to CreatePipe the SAME absent name; exactly one may win.
type c26Storm struct {
	K     int `json:"k"`
	W     int `json:"w"`
	Ms    int `json:"ms"`
	Races int `json:"races"`
}

type c26StormObs struct {
	Died       bool     `json:"died,omitempty"`
	Unexpected bool     `json:"unexpected,omitempty"`
	Races      int      `json:"races,omitempty"`
	Dup        int      `json:"dup,omitempty"` // racing rounds without exactly one winner / one constructed pipe / a reachable pipe
	FirstDup   string   `json:"firstdup,omitempty"`
	Final      [][2]int `json:"final"`
	Rounds     int      `json:"rounds,omitempty"`
}

type c26Case struct {
	Src   string    `json:"src"`
	Runs  []c26Run  `json:"runs"`
	Storm *c26Storm `json:"storm,omitempty"`
}

type c26Phase struct {
	Res  []string `json:"res"`  // ok|err|panic|dump:<n>=<t>,...
	Dump [][2]int `json:"dump"` // after the wait
}

type c26RunObs struct {
	Crashed bool       `json:"crashed,omitempty"`
	Slow    bool       `json:"slow,omitempty"` // a phase's calls took so long that a delayed close may have fired in between
	Phases  []c26Phase `json:"phases,omitempty"`
}

type c26 struct{}

func init() { register("C26", c26{}) }

var c26Names = []string{"null", "p", "q", "r"}
var c26Types = map[string]int{"null": 0, "std": 1, "exposed": 2}

const c26Grace = 3000 * time.Millisecond

// ---------------------------------------------------------------- generation

// every sequence over {create p, close p, delete p, W} of length <= maxLen with
// at most 2 waits; a W ends a phase
func c26Exhaustive(maxLen int, f func(c26Run)) {
	syms := []string{"create", "close", "delete", "W"}
	var rec func(seq []string, waits int)
	rec = func(seq []string, waits int) {
		if len(seq) > 0 && seq[len(seq)-1] != "W" {
			var r c26Run
			cur := []c26Op{}
			for _, s := range seq {
				if s == "W" {
					r.Phases = append(r.Phases, cur)
					cur = []c26Op{}
				} else {
					cur = append(cur, c26Op{s, 1})
				}
			}
			cur = append(cur, c26Op{"dump", 0})
			r.Phases = append(r.Phases, cur)
			f(r)
		}
		if len(seq) == maxLen {
			return
		}
		for _, s := range syms {
			if s == "W" {
				if waits == 2 || len(seq) == 0 || seq[len(seq)-1] == "W" {
					continue
				}
				rec(append(seq, s), waits+1)
			} else {
				rec(append(seq, s), waits)
			}
		}
	}
	rec(nil, 0)
}

func c26Random(r *rand.Rand) c26Run {
	var run c26Run
	nph := 1 + r.Intn(3)
	names := 1 + r.Intn(3) // p | p,q | p,q,r
	for ph := 0; ph < nph; ph++ {
		n := 1 + r.Intn(7)
		gets := 0
		var ops []c26Op
		for i := 0; i < n; i++ {
			name := 1 + r.Intn(names)
			if r.Intn(12) == 0 {
				name = 0
			}
			switch x := r.Intn(100); {
			case x < 30:
				ops = append(ops, c26Op{"create", name})
			case x < 36:
				ops = append(ops, c26Op{"expose", name})
			case x < 66:
				ops = append(ops, c26Op{"close", name})
			case x < 84:
				ops = append(ops, c26Op{"delete", name})
			case x < 92:
				if gets < 2 { // a miss costs 0.5s; the phase must end well inside the grace period
					ops = append(ops, c26Op{"get", name})
					gets++
				}
			default:
				ops = append(ops, c26Op{"dump", 0})
			}
		}
		run.Phases = append(run.Phases, ops)
	}
	return run
}

func (c26) Gen(seed int64, tier string, emit func(any)) {
	cl := func(n int) c26Op { return c26Op{"close", n} }
	cr := func(n int) c26Op { return c26Op{"create", n} }
	de := func(n int) c26Op { return c26Op{"delete", n} }
	// design-phase witnesses F26 (each killed the shell two seconds later), and the null pipe
	emit(c26Case{Src: "corpus", Runs: []c26Run{
		{[][]c26Op{{cr(1), cl(1), cl(1)}}},
		{[][]c26Op{{cr(1), cl(1), de(1)}}},
		{[][]c26Op{{cr(1), cl(1), de(1), cr(1)}, {{"get", 1}, cr(1)}}},
		{[][]c26Op{{cl(0), de(0), cr(0), {"get", 0}, {"dump", 0}}}},
		{[][]c26Op{{cl(1), de(1), {"get", 1}}, {cr(1), cl(1)}, {{"get", 1}, cr(1), {"dump", 0}}}},
	}})
	maxLen, nrand, batch := 5, 600, 250
	if tier == "thorough" {
		maxLen, nrand, batch = 6, 9000, 400
	}
	// concurrent storms ride along with the first batches (separate child, same wall time)
	storms := 3
	if tier == "thorough" {
		storms = 10
	}
	sr := rand.New(rand.NewSource(seed + 1000003))
	var cur []c26Run
	flush := func(src string) {
		if len(cur) > 0 {
			c := c26Case{Src: src, Runs: cur}
			if storms > 0 {
				storms--
				c.Storm = &c26Storm{K: 250 + sr.Intn(200), W: 4 + sr.Intn(5), Ms: 3000, Races: 1000 + sr.Intn(400)}
			}
			emit(c)
			cur = nil
		}
	}
	c26Exhaustive(maxLen, func(r c26Run) {
		cur = append(cur, r)
		if len(cur) == batch {
			flush("exh")
		}
	})
	flush("exh")
	rg := rand.New(rand.NewSource(seed))
	for i := 0; i < nrand; i++ {
		cur = append(cur, c26Random(rg))
		if len(cur) == batch {
			flush("rand")
		}
	}
	flush("rand")
}

// ---------------------------------------------------------------- child

func c26Dump(n *pipes.Named) [][2]int {
	d := n.Dump()
	out := [][2]int{}
	for name, ty := range d {
		idx := -1
		for i, s := range c26Names {
			if s == name {
				idx = i
			}
		}
		t, ok := c26Types[ty]
		if !ok {
			t = 9
		}
		out = append(out, [2]int{idx, t})
	}
	sort.Slice(out, func(i, j int) bool { return out[i][0] < out[j][0] })
	return out
}

func c26Exec(run c26Run) c26RunObs {
	n := pipes.NewNamed()
	var obs c26RunObs
	for _, ph := range run.Phases {
		var po c26Phase
		po.Res = []string{}
		t0 := time.Now()
		closed := map[int]bool{}
		for _, o := range ph {
			res := func() (r string) {
				defer func() {
					if x := recover(); x != nil {
						r = "panic"
					}
				}()
				name := c26Names[o.N]
				var err error
				switch o.K {
				case "create":
					err = n.CreatePipe(name, "std", "")
				case "expose":
					err = n.ExposePipe(name, "exposed", new(null.Null))
				case "close":
					err = n.Close(name)
				case "delete":
					err = n.Delete(name)
				case "get":
					_, err = n.Get(name)
				case "dump":
					var s []string
					for _, e := range c26Dump(&n) {
						s = append(s, fmt.Sprintf("%d=%d", e[0], e[1]))
					}
					return "dump:" + strings.Join(s, ",")
				default:
					return "panic"
				}
				if err != nil {
					return "err"
				}
				return "ok"
			}()
			po.Res = append(po.Res, res)
			if o.K == "close" && res == "ok" {
				closed[o.N] = true
			}
		}
		if time.Since(t0) > 1500*time.Millisecond {
			obs.Slow = true
		}
		time.Sleep(c26Grace) // every delayed closePipe of this phase has fired by now ...
		// ... unless the machine is so busy that a delayed goroutine has not been scheduled
		// yet: give the closed names up to 6 more seconds to go, and have the registry
		// looked at again on its own (Slow)
		for limit := time.Now().Add(6 * time.Second); time.Now().Before(limit); {
			still := false
			for _, e := range c26Dump(&n) {
				if closed[e[0]] {
					still = true
				}
			}
			if !still {
				break
			}
			obs.Slow = true
			time.Sleep(100 * time.Millisecond)
		}
		if obs.Slow {
			time.Sleep(500 * time.Millisecond)
		}
		po.Dump = c26Dump(&n)
		obs.Phases = append(obs.Phases, po)
	}
	return obs
}

// a pipe type whose constructor takes a while (like `file` on a slow disk or
// `tcp-dial`): widens every window between CreatePipe's check and its insert
const c26SlowType = "c26-slow"

var (
	c26SlowOnce sync.Once
	c26SlowMade int32
)

func c26RegisterSlow() {
	c26SlowOnce.Do(func() {
		stdio.RegisterPipe(c26SlowType, func(string) (stdio.Io, error) {
			atomic.AddInt32(&c26SlowMade, 1)
			time.Sleep(2 * time.Millisecond)
			return stdio.CreatePipe("std", "")
		})
	})
}

// c26Races: `rounds` racing rounds on registry n with w racers. Returns the
// number of rounds that broke "names are unique among live pipes".
func c26Races(n *pipes.Named, w, rounds int, tmp string) (dup int, first string) {
	c26RegisterSlow()
	for r := 0; r < rounds; r++ {
		name := fmt.Sprintf("shared%d", r%2)
		closeRound := r%10 == 9
		if closeRound {
			name = fmt.Sprintf("sharedc%d", r) // closed, not deleted: gone two seconds later
		}
		ty, arg := "std", ""
		switch {
		case r%8 == 3:
			ty = c26SlowType
		case r%40 == 7:
			ty, arg = "file", filepath.Join(tmp, fmt.Sprintf("f%d", r))
		}
		atomic.StoreInt32(&c26SlowMade, 0)
		var (
			ok    int32
			wg    sync.WaitGroup
			start = make(chan struct{})
		)
		for i := 0; i < w; i++ {
			wg.Add(1)
			go func() {
				defer wg.Done()
				<-start
				if n.CreatePipe(name, ty, arg) == nil {
					atomic.AddInt32(&ok, 1)
				}
			}()
		}
		close(start)
		wg.Wait()
		why := ""
		if ok != 1 {
			why = fmt.Sprintf("round %d (%s): %d of %d racing CreatePipe calls succeeded", r, ty, ok, w)
		} else if made := atomic.LoadInt32(&c26SlowMade); ty == c26SlowType && made != 1 {
			why = fmt.Sprintf("round %d: %d pipes constructed for one name (orphans)", r, made)
		} else if _, err := n.Get(name); err != nil {
			why = fmt.Sprintf("round %d: the winner's pipe is not reachable by name", r)
		}
		var err1, err2 error
		if closeRound {
			err1 = n.Close(name)
		} else {
			err1 = n.Delete(name)
			if err2 = n.Delete(name); err2 == nil && why == "" {
				why = fmt.Sprintf("round %d: Delete on a missing pipe succeeded", r)
			}
		}
		if err1 != nil && why == "" {
			why = fmt.Sprintf("round %d: the winner could not remove its pipe", r)
		}
		if why != "" {
			dup++
			if first == "" {
				first = why
			}
		}
	}
	return
}

func c26RunStorm(st c26Storm) c26StormObs {
	var o c26StormObs
	n := pipes.NewNamed()
	tmp, _ := os.MkdirTemp("", "c26storm")
	defer os.RemoveAll(tmp)
	raceDone := make(chan struct{})
	var unexpected, rounds int64
	var mu sync.Mutex
	bad := func() { mu.Lock(); unexpected++; mu.Unlock() }
	for i := 0; i < st.K; i++ {
		if n.CreatePipe(fmt.Sprintf("closed%d", i), "std", "") != nil {
			bad()
		}
	}
	for i := 0; i < st.K; i++ {
		if n.Close(fmt.Sprintf("closed%d", i)) != nil {
			bad()
		}
	}
	deadline := time.Now().Add(time.Duration(st.Ms) * time.Millisecond)
	go func() {
		w := st.W
		if w < 2 {
			w = 2
		}
		o.Dup, o.FirstDup = c26Races(&n, w, st.Races, tmp)
		o.Races = st.Races
		close(raceDone)
	}()
	var wg sync.WaitGroup
	for w := 0; w < st.W; w++ {
		wg.Add(1)
		go func(w int) {
			defer wg.Done()
			name := fmt.Sprintf("w%d", w)
			for r := 0; time.Now().Before(deadline); r++ {
				if r%5 == 4 {
					fresh := fmt.Sprintf("w%d_%d", w, r)
					if n.CreatePipe(fresh, "std", "") != nil {
						bad()
					}
					if _, err := n.Get(fresh); err != nil {
						bad()
					}
					if n.Close(fresh) != nil {
						bad()
					}
				} else {
					if n.CreatePipe(name, "std", "") != nil {
						bad()
					}
					if _, err := n.Get(name); err != nil {
						bad()
					}
					if d := n.Dump(); d[name] != "std" || d["null"] != "null" {
						bad()
					}
					if n.Delete(name) != nil {
						bad()
					}
					if n.Delete(name) == nil { // missing now: must be an error
						bad()
					}
				}
				mu.Lock()
				rounds++
				mu.Unlock()
				runtime.Gosched()
			}
		}(w)
	}
	wg.Wait()
	<-raceDone
	time.Sleep(c26Grace)
	o.Final = c26Dump(&n)
	o.Unexpected = unexpected > 0
	o.Rounds = int(rounds)
	return o
}

func c26SpawnStorm(st c26Storm) c26StormObs {
	in, _ := json.Marshal(st)
	cmd := exec.Command(os.Args[0], "child", "C26", "storm")
	cmd.Stdin = bytes.NewReader(in)
	var out bytes.Buffer
	cmd.Stdout = &out
	if err := cmd.Start(); err != nil {
		die("C26: cannot start storm child: %v", err)
	}
	done := make(chan error, 1)
	go func() { done <- cmd.Wait() }()
	select {
	case err := <-done:
		if err != nil {
			return c26StormObs{Died: true} // fatal error: concurrent map writes, panic, ...
		}
	case <-time.After(time.Duration(st.Ms)*time.Millisecond + 120*time.Second):
		cmd.Process.Kill()
		<-done
		return c26StormObs{Died: true}
	}
	for _, l := range strings.Split(out.String(), "\n") {
		if strings.HasPrefix(l, "C26STORM ") {
			var o c26StormObs
			if json.Unmarshal([]byte(l[len("C26STORM "):]), &o) == nil {
				return o
			}
		}
	}
	return c26StormObs{Died: true}
}

func (c26) Child(args []string) {
	if len(args) > 0 && args[0] == "storm" {
		var st c26Storm
		if err := json.NewDecoder(os.Stdin).Decode(&st); err != nil {
			die("C26 storm child: %v", err)
		}
		b, _ := json.Marshal(c26RunStorm(st))
		os.Stdout.Write(append([]byte("C26STORM "), append(b, '\n')...))
		os.Exit(0)
	}
	var c c26Case
	if err := json.NewDecoder(os.Stdin).Decode(&c); err != nil {
		die("C26 child: %v", err)
	}
	out := make([]c26RunObs, len(c.Runs))
	var wg sync.WaitGroup
	for i := range c.Runs {
		wg.Add(1)
		go func(i int) {
			defer wg.Done()
			out[i] = c26Exec(c.Runs[i])
		}(i)
	}
	wg.Wait()
	b, _ := json.Marshal(out)
	os.Stdout.Write(append([]byte("C26RESULT "), append(b, '\n')...))
	os.Exit(0)
}

func c26Spawn(c c26Case) ([]c26RunObs, bool) {
	maxPh := 1
	for _, r := range c.Runs {
		if len(r.Phases) > maxPh {
			maxPh = len(r.Phases)
		}
	}
	in, _ := json.Marshal(c)
	cmd := exec.Command(os.Args[0], "child", "C26")
	cmd.Stdin = bytes.NewReader(in)
	var out bytes.Buffer
	cmd.Stdout = &out
	if err := cmd.Start(); err != nil {
		die("C26: cannot start child: %v", err)
	}
	done := make(chan error, 1)
	go func() { done <- cmd.Wait() }()
	var werr error
	select {
	case werr = <-done:
	case <-time.After(time.Duration(maxPh)*(c26Grace+1500*time.Millisecond) + 60*time.Second):
		cmd.Process.Kill()
		<-done
		return nil, false
	}
	if werr != nil {
		return nil, false
	}
	for _, l := range strings.Split(out.String(), "\n") {
		if strings.HasPrefix(l, "C26RESULT ") {
			var obs []c26RunObs
			if json.Unmarshal([]byte(l[len("C26RESULT "):]), &obs) == nil && len(obs) == len(c.Runs) {
				return obs, true
			}
		}
	}
	return nil, false
}

// ---------------------------------------------------------------- run

func c26CoqOp(o c26Op) string {
	n := coqlit.N(uint64(o.N))
	switch o.K {
	case "create":
		return coqlit.App("Create", n)
	case "expose":
		return coqlit.App("Expose", n)
	case "close":
		return coqlit.App("Close", n)
	case "delete":
		return coqlit.App("Delete", n)
	case "get":
		return coqlit.App("Get", n)
	default:
		return "Dump"
	}
}

func c26CoqPairs(d [][2]int) string {
	var e []string
	for _, p := range d {
		if p[0] < 0 {
			p[0] = 99
		}
		e = append(e, fmt.Sprintf("(%s, %s)", coqlit.N(uint64(p[0])), coqlit.N(uint64(p[1]))))
	}
	return coqlit.List(e)
}

func c26CoqRes(r string) string {
	switch {
	case r == "ok":
		return "ROk"
	case r == "err":
		return "RErr"
	case strings.HasPrefix(r, "dump:"):
		var d [][2]int
		for _, kv := range strings.Split(r[5:], ",") {
			var a, b int
			if _, err := fmt.Sscanf(kv, "%d=%d", &a, &b); err == nil {
				d = append(d, [2]int{a, b})
			}
		}
		return coqlit.App("RNames", c26CoqPairs(d))
	default:
		return "RPanic"
	}
}

func (c26) Run(raw json.RawMessage) Result {
	var c c26Case
	if err := json.Unmarshal(raw, &c); err != nil {
		die("C26: bad case: %v", err)
	}
	var stormObs *c26StormObs
	stormDone := make(chan struct{})
	if c.Storm != nil {
		go func() {
			o := c26SpawnStorm(*c.Storm)
			stormObs = &o
			close(stormDone)
		}()
	} else {
		close(stormDone)
	}
	var obs []c26RunObs
	ok := true
	if len(c.Runs) > 0 {
		obs, ok = c26Spawn(c26Case{Src: c.Src, Runs: c.Runs})
	}
	crashes := 0
	if !ok {
		// the batch died: run every registry in its own child to find the culprit(s)
		obs = make([]c26RunObs, len(c.Runs))
		sem := make(chan struct{}, 24)
		var wg sync.WaitGroup
		for i := range c.Runs {
			wg.Add(1)
			sem <- struct{}{}
			go func(i int) {
				defer wg.Done()
				defer func() { <-sem }()
				o, ok := c26Spawn(c26Case{Src: c.Src, Runs: []c26Run{c.Runs[i]}})
				if !ok {
					obs[i] = c26RunObs{Crashed: true}
				} else {
					obs[i] = o[0]
				}
			}(i)
		}
		wg.Wait()
	}
	// a registry whose calls were delayed past the grace period (overloaded machine) is run again on its own
	for i := range c.Runs {
		for try := 0; try < 3 && obs[i].Slow && !obs[i].Crashed; try++ {
			if o, ok := c26Spawn(c26Case{Src: c.Src, Runs: []c26Run{c.Runs[i]}}); ok {
				obs[i] = o[0]
			}
		}
	}
	var runs []string
	nontrivial := false
	maxPh := 0
	for i, r := range c.Runs {
		var phs []string
		hasCreate, hasClose := false, false
		for _, ph := range r.Phases {
			var ops []string
			for _, o := range ph {
				ops = append(ops, c26CoqOp(o))
				hasCreate = hasCreate || o.K == "create" || o.K == "expose"
				hasClose = hasClose || o.K == "close"
			}
			phs = append(phs, coqlit.List(ops))
		}
		if hasCreate && hasClose {
			nontrivial = true
		}
		if len(r.Phases) > maxPh {
			maxPh = len(r.Phases)
		}
		ro := "Crashed"
		if obs[i].Crashed {
			crashes++
		} else {
			var pos []string
			for _, po := range obs[i].Phases {
				var rs []string
				for _, x := range po.Res {
					rs = append(rs, c26CoqRes(x))
				}
				pos = append(pos, coqlit.Record("po_res", coqlit.List(rs), "po_dump", c26CoqPairs(po.Dump)))
			}
			ro = coqlit.App("Survived", coqlit.List(pos))
		}
		runs = append(runs, coqlit.Record("r_phases", coqlit.List(phs), "r_obs", ro))
	}
	class := fmt.Sprintf("%s/batch<=%dphases", c.Src, maxPh)
	if crashes > 0 {
		class += "/crashed"
	}
	summary := map[string]any{"registries": len(c.Runs), "crashed": crashes}
	if len(c.Runs) <= 3 {
		summary["obs"] = obs
	}
	<-stormDone
	storms := []string{}
	if c.Storm != nil {
		so := "StormDied"
		if !stormObs.Died {
			so = coqlit.App("StormSurvived", coqlit.Bool(stormObs.Unexpected), coqlit.N(uint64(stormObs.Dup)), c26CoqPairs(stormObs.Final))
			if stormObs.Dup > 0 {
				class += "/race-lost-uniqueness"
			}
		} else {
			class += "/storm-died"
		}
		storms = append(storms, coqlit.Record("s_pipes", coqlit.N(uint64(c.Storm.K)), "s_workers", coqlit.N(uint64(c.Storm.W)), "s_races", coqlit.N(uint64(c.Storm.Races)), "s_obs", so))
		summary["storm"] = stormObs
		class += "+storm"
		nontrivial = true
	}
	return Result{Obs: summary, Coq: coqlit.Record("c_runs", coqlit.List(runs), "c_storms", coqlit.List(storms)), Nontrivial: nontrivial, Class: class}
}

// Shrink: split the batch; for a single registry drop one phase or one call.
func (c26) Shrink(raw json.RawMessage) []any {
	var c c26Case
	if err := json.Unmarshal(raw, &c); err != nil {
		return nil
	}
	var out []any
	if c.Storm != nil {
		if len(c.Runs) > 0 {
			return []any{c26Case{Src: c.Src, Runs: []c26Run{}, Storm: c.Storm}, c26Case{Src: c.Src, Runs: c.Runs}}
		}
		st := *c.Storm
		if st.K > 50 {
			out = append(out, c26Case{Src: c.Src, Runs: []c26Run{}, Storm: &c26Storm{K: st.K / 2, W: st.W, Ms: st.Ms, Races: st.Races}})
		}
		if st.W > 2 {
			out = append(out, c26Case{Src: c.Src, Runs: []c26Run{}, Storm: &c26Storm{K: st.K, W: st.W / 2, Ms: st.Ms, Races: st.Races}})
		}
		if st.Races > 40 {
			out = append(out, c26Case{Src: c.Src, Runs: []c26Run{}, Storm: &c26Storm{K: st.K, W: st.W, Ms: st.Ms, Races: st.Races / 2}})
		}
		if st.K > 0 && st.Races > 0 {
			out = append(out, c26Case{Src: c.Src, Runs: []c26Run{}, Storm: &c26Storm{K: 0, W: st.W, Ms: 200, Races: st.Races}})
		}
		return out
	}
	if len(c.Runs) == 0 {
		return nil
	}
	if len(c.Runs) > 1 {
		h := len(c.Runs) / 2
		out = append(out, c26Case{Src: c.Src, Runs: c.Runs[:h]}, c26Case{Src: c.Src, Runs: c.Runs[h:]})
		if len(c.Runs) <= 8 {
			for _, r := range c.Runs {
				out = append(out, c26Case{Src: c.Src, Runs: []c26Run{r}})
			}
		}
		return out
	}
	r := c.Runs[0]
	for i := range r.Phases {
		if len(r.Phases) > 1 {
			ph := append(append([][]c26Op(nil), r.Phases[:i]...), r.Phases[i+1:]...)
			out = append(out, c26Case{Src: c.Src, Runs: []c26Run{{ph}}})
		}
		for j := range r.Phases[i] {
			ph := make([][]c26Op, len(r.Phases))
			for k := range r.Phases {
				ph[k] = append([]c26Op(nil), r.Phases[k]...)
			}
			ph[i] = append(ph[i][:j], ph[i][j+1:]...)
			out = append(out, c26Case{Src: c.Src, Runs: []c26Run{{ph}}})
		}
	}
	return out
}
