//go:build prop_c10 || prop_all

package main

// C10 — Escaped command lines parse back to the original argv.
// argv vectors (a plain command name + up to 6 arbitrary strings) are escaped by
// escape.CommandLine + strings.Join (what argvToCmdLineStr does), by the real
// argvToCmdLineStr of a murex binary built with -tags verif (hook verif_main.go),
// and by the esccli builtin; the text is parsed by ParseBlock +
// StatementParametersParser; 1 in 10 is really executed with
// `murex --execute <helper> args...` and the helper reports its argv.

import (
	"bufio"
	"encoding/json"
	"io"
	"math/rand"
	"os"
	"os/exec"
	"path/filepath"
	"strings"
	"sync"
	"time"

	"github.com/lmorg/murex/utils/escape"

	"verifharness/coqlit"
)

type c10Case struct {
	Argv []string `json:"argv"`
	Real bool     `json:"real,omitempty"` // also run `murex --execute`
}
type c10Obs struct {
	CmdLine string   `json:"cmdline"`
	Main    string   `json:"main"`
	EscCli  string   `json:"esccli"`
	First   c0xFirst `json:"first"`
	E2E     string   `json:"e2e"`
}

type c10 struct{}

func init() { register("C10", c10{}) }

func c10MainBin() string {
	self, _ := os.Executable()
	return filepath.Join(filepath.Dir(self), "murex-c10-main")
}

func c10Repo() string {
	if r := os.Getenv("VERIF_REPO"); r != "" {
		return r
	}
	return "/repo"
}

var c10Cmds = []string{"echo", "out", "f", "printf", "ls", "a"}

func (c10) Gen(seed int64, tier string, emit func(any)) {
	// the real binary (package main cannot be imported): built once per check
	cmd := exec.Command("go", "build", "-tags", "verif", "-o", c10MainBin(), ".")
	cmd.Dir = c10Repo()
	if out, err := cmd.CombinedOutput(); err != nil {
		die("C10: cannot build murex with -tags verif from %s: %v\n%s", c10Repo(), err, out)
	}

	for _, w := range [][]string{
		{"echo", "a;b"}, {"echo", "~"}, {"echo", "{"}, {"echo", "`"}, {"echo", "%[1]"}, {"echo", "a&&b"}, {"echo", "}"},
		{"echo", "", "b"}, {"echo", "=", "b"}, {"echo", "=b"}, {"echo", ":=", "1"},
		{"echo", "a b", "$HOME", "it's", "q\"r", "#c", "*", "?", "a|b", "@x", "a:b", "-x", "a=>b", "[z]", "]", "a\\b", "a\nb", "\t", "(x)", "<y>", "a&b", "100%", "=="},
	} {
		emit(c10Case{Argv: w, Real: true})
	}
	// every single byte 1..127 as the only argument, and in the middle of a word
	for b := 1; b < 128; b++ {
		emit(c10Case{Argv: []string{"echo", string(rune(b))}})
		emit(c10Case{Argv: []string{"echo", "a" + string(rune(b)) + "b", "z"}, Real: b%16 == 0})
	}
	r := rand.New(rand.NewSource(seed))
	n := 600
	if tier == "thorough" {
		n = 5000
	}
	for i := 0; i < n; i++ {
		k := 1 + r.Intn(6)
		argv := []string{c10Cmds[r.Intn(len(c10Cmds))]}
		safe := r.Intn(2) == 0
		for j := 0; j < k; j++ {
			s := c0xRandString(r, 8, 7)
			if safe {
				// stay inside the set the escape table covers
				s = strings.NewReplacer(";", ",", "{", "(", "}", ")", "~", "-", "`", "'", "&&", "&", "%[", "%", "%{", "%").Replace(s)
				s = strings.ReplaceAll(s, "&&", "&")
				s = strings.NewReplacer("%[", "%", "%{", "%", "%(", "%").Replace(s)
				if s == "" {
					s = "e"
				}
				if j == 0 && (strings.HasPrefix(s, "=") || strings.HasPrefix(s, ":=") || strings.HasPrefix(s, "+=") || strings.HasPrefix(s, "-=") || strings.HasPrefix(s, "/=")) {
					s = "x" + s
				}
			}
			s = strings.ReplaceAll(s, "\x00", "")
			argv = append(argv, s)
		}
		emit(c10Case{Argv: argv, Real: i%10 == 0})
	}
}

// ---- long-lived child: the real argvToCmdLineStr ----

var (
	c10Once sync.Once
	c10In   io.WriteCloser
	c10Out  *bufio.Reader
)

func c10MainCmdLine(argv []string) string {
	c10Once.Do(func() {
		cmd := exec.Command(c10MainBin())
		cmd.Env = append(os.Environ(), "MUREX_VERIF_CMDLINE=1")
		var err error
		if c10In, err = cmd.StdinPipe(); err != nil {
			die("C10: %v", err)
		}
		so, err := cmd.StdoutPipe()
		if err != nil {
			die("C10: %v", err)
		}
		c10Out = bufio.NewReaderSize(so, 1<<20)
		if err := cmd.Start(); err != nil {
			die("C10: cannot start %s: %v", c10MainBin(), err)
		}
	})
	b, _ := json.Marshal(argv)
	if _, err := c10In.Write(append(b, '\n')); err != nil {
		die("C10: write to murex child: %v", err)
	}
	line, err := c10Out.ReadString('\n')
	if err != nil {
		die("C10: read from murex child: %v", err)
	}
	var s string
	if json.Unmarshal([]byte(line), &s) != nil {
		return "\x00<bad reply>"
	}
	return s
}

func (c10) Run(raw json.RawMessage) Result {
	var c c10Case
	if err := json.Unmarshal(raw, &c); err != nil {
		die("C10: bad case: %v", err)
	}
	// 1. escape.CommandLine + Join
	cp := append([]string{}, c.Argv...)
	escape.CommandLine(cp)
	line := strings.Join(cp, " ")
	o := c10Obs{CmdLine: line, E2E: "not run"}
	// 2. the real argvToCmdLineStr
	o.Main = c10MainCmdLine(c.Argv)
	same := o.Main == line
	// 3. esccli (parameters are handed over pre-parsed, as the builtin receives them)
	fork, _ := c0xFork([]c0xVar{}, []c0xArr{{"verifargv", c.Argv}})
	if out, ok := c08ExecInC10(fork.Execute, fork.Stdout.ReadAll, "esccli @verifargv"); ok {
		o.EscCli = out
		// @array drops empty elements (C08 F08): compare on the non-empty ones
		ne := []string{}
		for _, a := range c.Argv {
			if a != "" {
				ne = append(ne, a)
			}
		}
		escape.CommandLine(ne)
		if out != strings.Join(ne, " ")+"\n" {
			same = false
		}
	} else {
		o.EscCli = "<error>"
		same = false
	}
	// 4. parse the text back
	st := c0xParse(line, fork.Process)
	o.First = st
	// 5. real execution
	e2e := true
	if c.Real && !strings.Contains(strings.Join(c.Argv, ""), "\x00") {
		self, _ := os.Executable()
		args := append([]string{"--execute", self, "child", "C10", "argv"}, c.Argv[1:]...)
		cmd := exec.Command(c10MainBin(), args...)
		cmd.Env = append(os.Environ(), "MUREX_TEST=1", "HOME="+os.TempDir()+"/mxhome-c10")
		os.MkdirAll(os.TempDir()+"/mxhome-c10", 0o755)
		done := make(chan struct{})
		timedOut := false
		var out []byte
		go func() { out, _ = cmd.Output(); close(done) }()
		select {
		case <-done:
		case <-time.After(90 * time.Second):
			if cmd.Process != nil {
				cmd.Process.Kill()
			}
			<-done
			timedOut = true
		}
		var av []string
		okJSON := json.Unmarshal(out, &av) == nil
		// expectation relative to the in-process parse: the same parameters reach the helper
		parsedOK := st.Kind == 0 && !st.IsExpr && st.NFuncs == 1
		// expectation relative to the in-process parse: when the text is one statement,
		// the helper must have run and received exactly the parsed parameters
		if parsedOK && !timedOut {
			e2e = okJSON && c08SameC10(av, st.Params)
		}
		if e2e {
			o.E2E = "agrees"
		} else {
			o.E2E = "differs: " + string(out)
		}
	}

	kind := st.Kind
	if st.IsExpr {
		kind = 3
	}
	obs := coqlit.Record(
		"o_cmdline", coqlit.Bytes(line),
		"o_same", coqlit.Bool(same),
		"o_kind", coqlit.N(uint64(kind)),
		"o_nfuncs", coqlit.N(uint64(st.NFuncs)),
		"o_rawlen", coqlit.N(uint64(st.RawLen)),
		"o_cmd", coqlit.Bytes(st.Cmd),
		"o_params", coqlit.BytesList(st.Params),
		"o_e2e", coqlit.Bool(e2e),
	)
	coq := coqlit.Record("k_argv", coqlit.BytesList(c.Argv), "k_home", coqlit.Bytes(c0xHome()),
		"k_nocolour", coqlit.Bool(c0xNoColour()), "k_obs", obs)
	nontrivial := false
	for _, a := range c.Argv[1:] {
		for i := 0; i < len(a); i++ {
			ch := a[i]
			if !((ch >= 'a' && ch <= 'z') || (ch >= 'A' && ch <= 'Z') || (ch >= '0' && ch <= '9')) {
				nontrivial = true
			}
		}
	}
	class := "args" + string(rune('0'+len(c.Argv)-1))
	return Result{Obs: o, Coq: coq, Nontrivial: nontrivial, Class: class}
}

func c08SameC10(a, b []string) bool {
	if len(a) != len(b) {
		return false
	}
	for i := range a {
		if a[i] != b[i] {
			return false
		}
	}
	return true
}

func c08ExecInC10(execute func([]rune) (int, error), readAll func() ([]byte, error), block string) (string, bool) {
	type ret struct {
		n   int
		err error
	}
	done := make(chan ret, 1)
	go func() {
		n, err := execute([]rune(block))
		done <- ret{n, err}
	}()
	select {
	case x := <-done:
		if x.err != nil || x.n != 0 {
			return "", false
		}
	case <-time.After(20 * time.Second):
		return "", false
	}
	b, err := readAll()
	if err != nil {
		return "", false
	}
	return string(b), true
}

// Child: `mxh child C10 argv a b c` prints its arguments as a JSON array.
func (c10) Child(args []string) {
	if len(args) < 1 || args[0] != "argv" {
		die("C10 child: unknown mode")
	}
	av := args[1:]
	if av == nil {
		av = []string{}
	}
	b, _ := json.Marshal(av)
	os.Stdout.Write(b)
}

// Shrink: drop one argument, or one rune of one argument.
func (c10) Shrink(raw json.RawMessage) []any {
	var c c10Case
	if json.Unmarshal(raw, &c) != nil {
		return nil
	}
	var out []any
	for i := 1; i < len(c.Argv); i++ {
		if len(c.Argv) > 2 {
			d := append(append([]string{}, c.Argv[:i]...), c.Argv[i+1:]...)
			out = append(out, c10Case{Argv: d, Real: c.Real})
		}
		rs := []rune(c.Argv[i])
		for j := range rs {
			d := append([]string{}, c.Argv...)
			d[i] = string(rs[:j]) + string(rs[j+1:])
			out = append(out, c10Case{Argv: d, Real: c.Real})
		}
	}
	return out
}
