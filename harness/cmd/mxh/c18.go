//go:build prop_c18 || prop_all

package main

// C18 — mkarray ranges produce the exact sequence.
// Cases: a parsed expression (groups of literal segments and [..] blocks of
// strings and integer ranges), rendered in the canonical spelling and run
// through the real `a` / `ja` builtins in-process. Observation: kind and the
// list of elements (lines for `a`, JSON array elements for `ja`).

import (
	"bytes"
	"encoding/json"
	"fmt"
	"math/rand"
	"regexp"
	"strconv"
	"strings"
	"time"

	"verifharness/coqlit"
)

type c18Elem struct {
	S  *string `json:"s,omitempty"`
	Lo *string `json:"lo,omitempty"`
	Hi *string `json:"hi,omitempty"`
}

type c18Seg struct {
	Lit   *string   `json:"lit,omitempty"`
	Block []c18Elem `json:"block,omitempty"`
}

type c18Case struct {
	Ja   bool       `json:"ja"`
	Raw  *string    `json:"raw,omitempty"`  // the parameter bytes; absent: the canonical spelling of Expr
	Expr [][]c18Seg `json:"expr,omitempty"` // absent: raw byte stream (malformed / escaped input)
}

type c18Obs struct {
	Class  int      `json:"class"` // 0 ok, 1 clean error, 2 panic, 3 timeout, 4 unparsable output
	Items  []string `json:"items"`
	N      int      `json:"n"`
	Stderr string   `json:"stderr,omitempty"`
}

type c18 struct{}

func init() { register("C18", c18{}) }

func c18OK(s string) bool {
	for i := 0; i < len(s); i++ {
		c := s[i]
		if !(c >= '0' && c <= '9' || c >= 'a' && c <= 'z' || c >= 'A' && c <= 'Z' || c == '-' || c == '_' || c == ':' || c == '/' || c == '+') {
			return false
		}
	}
	return true
}

func c18Render(e [][]c18Seg) string {
	var gs []string
	for _, g := range e {
		var sb strings.Builder
		for _, s := range g {
			if s.Lit != nil {
				if !c18OK(*s.Lit) {
					die("C18: literal %q outside the harness alphabet", *s.Lit)
				}
				sb.WriteString(*s.Lit)
				continue
			}
			var es []string
			for _, el := range s.Block {
				if el.S != nil {
					if !c18OK(*el.S) {
						die("C18: element %q outside the harness alphabet", *el.S)
					}
					es = append(es, *el.S)
				} else {
					if !c18OK(*el.Lo) || !c18OK(*el.Hi) {
						die("C18: bound outside the harness alphabet")
					}
					es = append(es, *el.Lo+".."+*el.Hi)
				}
			}
			sb.WriteString("[" + strings.Join(es, ",") + "]")
		}
		gs = append(gs, sb.String())
	}
	return strings.Join(gs, ",")
}

func c18Coq(e [][]c18Seg) string {
	var gs []string
	for _, g := range e {
		var ss []string
		for _, s := range g {
			if s.Lit != nil {
				ss = append(ss, "(SLit "+coqlit.Bytes(*s.Lit)+")")
				continue
			}
			var es []string
			for _, el := range s.Block {
				if el.S != nil {
					es = append(es, "(EStr "+coqlit.Bytes(*el.S)+")")
				} else {
					es = append(es, "(ERange "+coqlit.Bytes(*el.Lo)+" "+coqlit.Bytes(*el.Hi)+")")
				}
			}
			ss = append(ss, "(SBlock "+coqlit.List(es)+")")
		}
		gs = append(gs, coqlit.List(ss))
	}
	return coqlit.List(gs)
}

func (c18) Run(raw json.RawMessage) Result {
	var c c18Case
	if err := json.Unmarshal(raw, &c); err != nil {
		die("C18: bad case: %v", err)
	}
	var text string
	if c.Raw != nil {
		text = *c.Raw
	} else {
		text = c18Render(c.Expr)
	}
	if strings.ContainsAny(text, "'\n") {
		die("C18: raw parameter contains a single quote or newline: %q", text)
	}
	cmd := "a"
	if c.Ja {
		cmd = "ja"
	}
	// single quotes hand the bytes to the builtin untouched by the shell parser
	r := RunMurex(cmd+" '"+text+"'", 30*time.Second)
	o := c18Obs{Items: []string{}}
	switch {
	case r.Timeout:
		o.Class = 3
	case strings.Contains(r.Stderr, "panic caught") || strings.Contains(r.Stderr, "panic:") || strings.Contains(r.Stderr, "has crashed"):
		o.Class = 2
	case r.ExitNum != 0 || r.Err:
		o.Class = 1
	default:
		if c.Ja {
			d := json.NewDecoder(bytes.NewReader([]byte(r.Stdout)))
			d.UseNumber()
			var arr []any
			if err := d.Decode(&arr); err != nil {
				o.Class = 4
				break
			}
			for _, x := range arr {
				switch t := x.(type) {
				case string:
					o.Items = append(o.Items, t)
				case json.Number:
					o.Items = append(o.Items, string(t))
				default:
					o.Class = 4
				}
			}
		} else {
			o.Items = c17LinesC18(r.Stdout)
		}
	}
	o.N = len(o.Items)
	if o.Class != 0 {
		o.Stderr = r.Stderr
		if len(o.Stderr) > 300 {
			o.Stderr = o.Stderr[:300]
		}
	}
	coq := coqlit.Record("c_ja", coqlit.Bool(c.Ja), "c_raw", coqlit.Bytes(text),
		"c_expr", coqlit.Option(c.Expr != nil, c18Coq(c.Expr)),
		"c_obs", coqlit.Record("o_class", coqlit.N(uint64(o.Class)), "o_items", coqlit.BytesList(o.Items)))
	nb, nr := 0, 0
	for _, g := range c.Expr {
		for _, s := range g {
			if s.Lit == nil {
				nb++
				for _, el := range s.Block {
					if el.S == nil {
						nr++
					}
				}
			}
		}
	}
	// evidence keeps at most 12 items
	if len(o.Items) > 12 {
		o.Items = o.Items[:12]
	}
	if c.Expr == nil {
		kind := "raw"
		if strings.Contains(text, "\\") {
			kind = "raw-esc"
		}
		return Result{Obs: o, Coq: coq, Nontrivial: strings.ContainsAny(text, "[]"), Class: fmt.Sprintf("%s/%s/class=%d", cmd, kind, o.Class)}
	}
	return Result{Obs: o, Coq: coq, Nontrivial: nb > 0, Class: fmt.Sprintf("%s/blocks=%d/ranges=%d", cmd, nb, min(nr, 3))}
}

func c17LinesC18(out string) []string {
	if out == "" {
		return []string{}
	}
	out = strings.TrimSuffix(out, "\n")
	return strings.Split(out, "\n")
}

func c18S(s string) *string { return &s }

// c18Count is the number of elements the expression expands to (sum over
// groups of the product of the block sizes).
func c18Count(e [][]c18Seg) int {
	total := 0
	for _, g := range e {
		n := 1
		for _, s := range g {
			if s.Lit != nil {
				continue
			}
			k := 0
			for _, el := range s.Block {
				if el.S != nil {
					k++
					continue
				}
				lo, _ := strconv.Atoi(*el.Lo)
				hi, _ := strconv.Atoi(*el.Hi)
				d := hi - lo
				if d < 0 {
					d = -d
				}
				k += d + 1
			}
			n *= k
			if n > 1000000 {
				n = 1000000
			}
		}
		total += n
	}
	return total
}

func c18Range(lo, hi string) c18Seg {
	return c18Seg{Block: []c18Elem{{Lo: c18S(lo), Hi: c18S(hi)}}}
}

func c18Single(ja bool, lo, hi string) c18Case {
	return c18Case{Ja: ja, Expr: [][]c18Seg{{c18Range(lo, hi)}}}
}

func c18Pad(v, w int) string { return fmt.Sprintf("%0*d", w, v) }

var c18Lits = []string{"", "x", "ab", "host-", "_v", "srv", "/tmp/f", "A:", "-"}
var c18Strs = []string{"a", "b", "foo", "", "Z9", "x-y", "07", "3", "1-23", "4a5"}

func (c18) Gen(seed int64, tier string, emit func(any)) {
	thorough := tier == "thorough"
	itoa := strconv.Itoa
	// 0. documentation examples
	emit(c18Single(false, "1", "9"))
	emit(c18Single(true, "1", "9"))
	emit(c18Single(false, "08", "11"))
	emit(c18Single(false, "11", "08"))
	emit(c18Single(false, "-3", "3"))

	// 1. integer pairs: the core square and a boundary grid up to +-200
	core := 20
	if thorough {
		core = 30
	}
	for m := -core; m <= core; m++ {
		for n := -core; n <= core; n++ {
			emit(c18Single(false, itoa(m), itoa(n)))
			if thorough && (m+n+200)%2 == 0 || (m+n+200)%5 == 0 {
				emit(c18Single(true, itoa(m), itoa(n)))
			}
		}
	}
	grid := []int{-200, -199, -101, -100, -99, -11, -10, -9, -1, 0, 1, 9, 10, 11, 99, 100, 101, 199, 200}
	for _, m := range grid {
		for _, n := range grid {
			emit(c18Single(false, itoa(m), itoa(n)))
			emit(c18Single(true, itoa(m), itoa(n)))
		}
	}
	if thorough {
		for m := -200; m <= 200; m++ {
			for _, d := range []int{-3, -1, 0, 1, 2, 7, 13} {
				n := m + d
				if n >= -200 && n <= 200 {
					emit(c18Single(false, itoa(m), itoa(n)))
				}
			}
		}
	}
	// leading zeros on the first, the second, or both bounds
	pv := []int{0, 1, 5, 9, 10, 11, 99, 100, 101}
	if thorough {
		pv = []int{0, 1, 2, 5, 8, 9, 10, 11, 12, 19, 20, 98, 99, 100, 101, 102, 120}
	}
	for _, m := range pv {
		for _, n := range pv {
			for _, w := range []int{2, 3, 4} {
				emit(c18Single(false, c18Pad(m, w), itoa(n)))
				emit(c18Single(false, itoa(m), c18Pad(n, w)))
				emit(c18Single((m+n+w)%2 == 0, c18Pad(m, w), c18Pad(n, w)))
				if thorough {
					emit(c18Single(true, c18Pad(m, w), itoa(n)))
					emit(c18Single(false, c18Pad(m, w), c18Pad(n, w+1)))
				}
			}
		}
	}

	// 2. up to three (thorough: four) blocks with literal prefixes / suffixes and comma lists
	r := rand.New(rand.NewSource(seed))
	nr := 700
	if thorough {
		nr = 6000
	}
	smallBound := func() string {
		v := r.Intn(13) - 3
		if v >= 0 && r.Intn(5) == 0 {
			return c18Pad(v, 2+r.Intn(2))
		}
		return itoa(v)
	}
	for i := 0; i < nr; i++ {
		ng := 1
		if r.Intn(5) == 0 {
			ng = 2
		}
		var e [][]c18Seg
		for g := 0; g < ng; g++ {
			maxb := 3
			if thorough {
				maxb = 4
			}
			nb := r.Intn(maxb + 1)
			if g == 0 && nb == 0 && r.Intn(3) != 0 {
				nb = 1 + r.Intn(maxb)
			}
			var segs []c18Seg
			lit := func(allowEmpty bool) {
				s := c18Lits[r.Intn(len(c18Lits))]
				if s == "" && !allowEmpty {
					return
				}
				if s != "" {
					segs = append(segs, c18Seg{Lit: c18S(s)})
				}
			}
			lit(true)
			for b := 0; b < nb; b++ {
				ne := 1 + r.Intn(3)
				var es []c18Elem
				for k := 0; k < ne; k++ {
					if r.Intn(2) == 0 {
						es = append(es, c18Elem{S: c18S(c18Strs[r.Intn(len(c18Strs))])})
					} else {
						es = append(es, c18Elem{Lo: c18S(smallBound()), Hi: c18S(smallBound())})
					}
				}
				segs = append(segs, c18Seg{Block: es})
				lit(true)
			}
			if len(segs) == 0 {
				segs = append(segs, c18Seg{Lit: c18S("solo")})
			}
			e = append(e, segs)
		}
		ja := r.Intn(3) == 0
		if c18Count(e) > 400 {
			continue // keep the expansion small enough for the kernel evaluation
		}
		emit(c18Case{Ja: ja, Expr: e})
	}
	// 4. raw byte strings: escapes, unbalanced brackets, odd dots, empty blocks
	for _, raw := range c18RawFixed {
		emit(c18Case{Ja: false, Raw: c18S(raw)})
		emit(c18Case{Ja: true, Raw: c18S(raw)})
	}
	nraw := 1500
	if thorough {
		nraw = 12000
	}
	for i := 0; i < nraw; i++ {
		var raw string
		if r.Intn(3) == 0 {
			raw = c18Mutate(r, c18Render(c18Small(r)))
		} else {
			n := r.Intn(11)
			b := make([]byte, n)
			for k := range b {
				b[k] = c18RawAlphabet[r.Intn(len(c18RawAlphabet))]
			}
			raw = string(b)
		}
		if !c18RawSafe(raw) {
			continue
		}
		emit(c18Case{Ja: r.Intn(3) == 0, Raw: c18S(raw)})
	}

	// 3. exhaustive small odometers: block sizes 1..3 for 1, 2 and 3 blocks
	for a := 1; a <= 3; a++ {
		for b := 0; b <= 3; b++ {
			for c := 0; c <= 3; c++ {
				if b == 0 && c != 0 {
					continue
				}
				segs := []c18Seg{{Lit: c18S("p")}, c18Range("1", itoa(a))}
				if b > 0 {
					segs = append(segs, c18Seg{Lit: c18S("-")}, c18Range("1", itoa(b)))
				}
				if c > 0 {
					segs = append(segs, c18Range(itoa(c), "1"), c18Seg{Lit: c18S("s")})
				}
				emit(c18Case{Ja: false, Expr: [][]c18Seg{segs}})
				emit(c18Case{Ja: true, Expr: [][]c18Seg{segs}})
			}
		}
	}
}

// ---- raw byte stream ----------------------------------------------------------

var c18RawFixed = []string{
	"", "x", "[", "]", "x[", "x]", "][", "[[1]]", "[1]]", "[1..3", "1..3]", "x\\", "\\", "\\\\", "a\\\\b",
	"[]", "x[]y", "[,]", "[,,]", "[1,,2]", "[1,]", "[,1]", "[][]", "[],[]", ",", ",,", "a,", ",a", "[1],[2]",
	"\\[1\\]", "[1\\,2]", "[1\\,2,3]", "[1\\.,2]", "[1\\..3]", "[1.\\.3]", "[1\\]2]", "x\\,y", "x\\,y,z", "[a\\,b,c]x",
	"[..]", "[a..]", "[q..]", "[..3]", "[3..]", "[1..2..3]", "[1...3]", "[1....3]", "[.]", "[1.5]", "[1.2.3]",
	"[-1..-3]", "[+1..3]", "[1..+3]", "[-..3]", "[1..3,5..4]x", "[1..3,x,07..09]", "[0..3]", "[00..3]", "[3..00]",
	"[1..22..3]", "[1..2,3..4]", "[12]", "[1,2,3]", "[01,2]", "[10,9..7]", "[1..3]x", "x[1..3]", "1..3", "x.y", "x..y", "..",
	"[1..3][", "[1..3]]", "[1,[2]]", "[1\\[2]", "[\\]", "[\\\\]", "[1..3\\]", "[a,b][1..2],z[3..4]",
}

const c18RawAlphabet = "01239-q\\,[].."

func c18Small(r *rand.Rand) [][]c18Seg {
	var segs []c18Seg
	if r.Intn(2) == 0 {
		segs = append(segs, c18Seg{Lit: c18S([]string{"x", "q-", "9"}[r.Intn(3)])})
	}
	nb := 1 + r.Intn(2)
	for b := 0; b < nb; b++ {
		var es []c18Elem
		for k := 0; k < 1+r.Intn(3); k++ {
			if r.Intn(2) == 0 {
				es = append(es, c18Elem{S: c18S([]string{"q", "", "1", "07", "12"}[r.Intn(5)])})
			} else {
				es = append(es, c18Elem{Lo: c18S(strconv.Itoa(r.Intn(7) - 2)), Hi: c18S(strconv.Itoa(r.Intn(7) - 2))})
			}
		}
		segs = append(segs, c18Seg{Block: es})
		if r.Intn(3) == 0 {
			segs = append(segs, c18Seg{Lit: c18S("y")})
		}
	}
	return [][]c18Seg{segs}
}

// c18Mutate deletes, inserts or replaces one or two bytes of a valid spelling.
func c18Mutate(r *rand.Rand, s string) string {
	b := []byte(s)
	for k := 0; k < 1+r.Intn(2); k++ {
		ch := c18RawAlphabet[r.Intn(len(c18RawAlphabet))]
		switch {
		case len(b) == 0 || r.Intn(3) == 0:
			i := r.Intn(len(b) + 1)
			b = append(b[:i], append([]byte{ch}, b[i:]...)...)
		case r.Intn(2) == 0:
			i := r.Intn(len(b))
			b = append(b[:i], b[i+1:]...)
		default:
			b[r.Intn(len(b))] = ch
		}
	}
	return string(b)
}

var c18RxIntRange = regexp.MustCompile(`^([+-]?[0-9]+)\.\.([+-]?[0-9]+)$`)
var c18RxAltBase = regexp.MustCompile(`[0-9a-zA-Z]+\.\.[0-9a-zA-Z]+[.x][0-9]+`)

// c18RawSafe keeps the raw stream inside what Model/MkArrayParse.v models: a
// piece between brackets / commas that contains `..` must be made of digits,
// signs, dots and backslashes only (no letter, date, named or number-base
// ranges), digit runs are short, and the expansion stays small.
func c18RawSafe(raw string) bool {
	if strings.ContainsAny(raw, "'\n") {
		return false
	}
	run := 0
	for i := 0; i < len(raw); i++ {
		if raw[i] >= '0' && raw[i] <= '9' {
			run++
			if run > 2 {
				return false
			}
		} else {
			run = 0
		}
	}
	total := 1
	for _, piece := range strings.FieldsFunc(raw, func(c rune) bool { return c == '[' || c == ']' || c == ',' }) {
		flat := strings.ReplaceAll(piece, "\\", "")
		if !strings.Contains(flat, "..") {
			continue
		}
		for i := 0; i < len(flat); i++ {
			c := flat[i]
			if !(c >= '0' && c <= '9' || c == '.' || c == '-' || c == '+') {
				return false
			}
		}
		if c18RxAltBase.MatchString(flat) {
			return false
		}
		if m := c18RxIntRange.FindStringSubmatch(flat); m != nil {
			a, _ := strconv.Atoi(m[1])
			b, _ := strconv.Atoi(m[2])
			d := a - b
			if d < 0 {
				d = -d
			}
			total *= d + 1
		}
	}
	return total <= 400
}
