//go:build prop_c01 || prop_all

package main

// C01 — Pipes deliver every byte exactly once, in order.
//
// Two kinds of case (see coq/theories/Check/C01.v):
//   ctl : thread programs + schedule, executed on a real streams.Stdin one atomic
//         action at a time through the verif yield hook (streams_shared.go);
//   free: real goroutines under the Go scheduler (the yield hook only perturbs the
//         timing): k writers with run-length coded payloads, one reader.

import (
	"bytes"
	"encoding/json"
	"fmt"
	"math/rand"
	"runtime"
	"strings"
	"sync"
	"sync/atomic"
	"time"

	"github.com/lmorg/murex/builtins/pipes/streams"

	"verifharness/coqlit"
)

type c01Run [2]int // byte, count

type c01Case struct {
	Mode string `json:"mode"` // ctl | free
	Tag  string `json:"tag,omitempty"`
	strmCtlCase
	// free
	Ws [][][]c01Run `json:"ws,omitempty"` // writer -> payload -> runs
	RK int          `json:"rk,omitempty"` // 0 Read loop, 1 WriteTo, 2 ReadAll
	RN int          `json:"rn,omitempty"` // slice length of the Read loop
	// RF[w]: writer w feeds all its bytes through one ReadFrom (its payloads are then
	// the 1024-byte chunks ReadFrom appends) instead of one Write per payload.
	RF []bool `json:"rf,omitempty"`
	// Stage 0: everything starts together.
	// Stage 1: the reader starts only once the plain writers are blocked on the full
	//          pipe (or done): "a writer blocked on a full pipe makes progress as soon
	//          as the reader drains it" (ReadAll additionally lifts the limit).
	// Stage 2: the ReadFrom writers start once the plain writers are blocked (ReadFrom
	//          lifts the limit, so they must all finish without any reader); the
	//          reader starts after every writer has closed.
	Stage int `json:"stage,omitempty"`
}

type c01FreeObs struct {
	Out  []c01Run `json:"out"`
	W    uint64   `json:"w"`
	R    uint64   `json:"r"`
	Err  bool     `json:"err"`  // an unexpected error / short write was returned
	Hang bool     `json:"hang"` // the run did not finish within its deadline
	Note string   `json:"note,omitempty"`
}

type c01 struct{}

func init() { register("C01", c01{}) }

// ---- generation -------------------------------------------------------------

func c01W(s string) strmOp  { return strmOp{K: "write", P: strmHex(s)} }
func c01R(n int) strmOp     { return strmOp{K: "read", N: n} }
func c01K(k string) strmOp  { return strmOp{K: k} }
func c01RF(s string) strmOp { return strmOp{K: "readfrom", P: strmHex(s)} }

func c01Seq(tag string, max int, ops ...strmOp) c01Case {
	// a single thread run to completion: generous schedule
	n := 0
	for _, o := range ops {
		n += 6 + len(o.P)/2048*6
	}
	sched := make([]int, n)
	return c01Case{Mode: "ctl", Tag: tag, strmCtlCase: strmCtlCase{Max: max, Progs: [][]strmOp{ops}, Sched: sched}}
}

var c01Payloads = []string{"", "a", "bc", "\x00", "\xff\xfe", "def", "\x00\x00", "xyzw", "hello\n", "\xc3\x28"}

func c01Pattern(n int, salt int) string {
	b := make([]byte, n)
	for i := range b {
		b[i] = byte((i*7 + salt) % 251)
	}
	return string(b)
}

func c01RandSched(r *rand.Rand, nthreads, n int) []int {
	s := make([]int, 0, n)
	style := r.Intn(3)
	for len(s) < n {
		t := r.Intn(nthreads)
		burst := 1
		switch style {
		case 1:
			burst = 1 + r.Intn(4)
		case 2:
			burst = 1 + r.Intn(12)
		}
		for j := 0; j < burst && len(s) < n; j++ {
			s = append(s, t)
		}
	}
	return s
}

func c01RandProg(r *rand.Rand, role int, max int) []strmOp {
	var p []strmOp
	pay := func() string {
		if r.Intn(6) == 0 {
			n := 1 + r.Intn(7)
			b := make([]byte, n)
			for i := range b {
				b[i] = byte(r.Intn(256))
			}
			return string(b)
		}
		return c01Payloads[r.Intn(len(c01Payloads))]
	}
	switch role {
	case 0: // writer
		p = append(p, c01K("open"))
		for i, n := 0, 1+r.Intn(3); i < n; i++ {
			if r.Intn(12) == 0 {
				p = append(p, c01RF(pay()+pay()))
			} else {
				p = append(p, c01W(pay()))
			}
		}
		if r.Intn(8) == 0 {
			p = append(p, c01K("stats"))
		}
		if r.Intn(10) != 0 {
			p = append(p, c01K("close"))
		}
	case 1: // reader with Read
		for i, n := 0, 1+r.Intn(4); i < n; i++ {
			p = append(p, c01R(r.Intn(5)))
		}
		if r.Intn(3) == 0 {
			p = append(p, c01K("stats"))
		}
	case 2: // reader with ReadAll / WriteTo
		if r.Intn(3) == 0 {
			p = append(p, c01R(1+r.Intn(3)))
		}
		if r.Intn(2) == 0 {
			p = append(p, c01K("readall"))
		} else {
			p = append(p, c01K("writeto"))
		}
		if r.Intn(2) == 0 {
			p = append(p, c01K("stats"))
		}
		if r.Intn(4) == 0 {
			p = append(p, c01K("readall"))
		}
		if r.Intn(4) == 0 {
			p = append(p, c01R(2))
		}
	case 3: // anything
		kinds := []string{"open", "close", "write", "read", "readall", "writeto", "stats", "force", "readfrom", "write", "read", "setdt", "getdt"}
		for i, n := 0, 1+r.Intn(4); i < n; i++ {
			k := kinds[r.Intn(len(kinds))]
			switch k {
			case "write":
				p = append(p, c01W(pay()))
			case "read":
				p = append(p, c01R(r.Intn(4)))
			case "readfrom":
				p = append(p, c01RF(pay()))
			case "setdt":
				p = append(p, strmOp{K: "setdt", P: strmHex([]string{"", "null", "json", "str"}[r.Intn(4)])})
			default:
				p = append(p, c01K(k))
			}
		}
	}
	return p
}

func c01RandCtl(r *rand.Rand, tier string) c01Case {
	maxes := []int{1, 2, 3, 4, 8, 8, 16, 0, 1024 * 1024}
	max := maxes[r.Intn(len(maxes))]
	nt := 1 + r.Intn(4)
	var progs [][]strmOp
	steps := 0
	for i := 0; i < nt; i++ {
		role := r.Intn(4)
		if i == 0 && nt > 1 {
			role = 0
		}
		if i == 1 {
			role = 1 + r.Intn(2)
		}
		p := c01RandProg(r, role, max)
		progs = append(progs, p)
		steps += 5 * len(p)
	}
	n := steps + r.Intn(steps+4)
	lim := 70
	if tier == "thorough" {
		lim = 160
	}
	if n > lim {
		n = lim
	}
	return c01Case{Mode: "ctl", Tag: fmt.Sprintf("rnd%dt", nt), strmCtlCase: strmCtlCase{Max: max, Progs: progs, Sched: c01RandSched(r, nt, n)}}
}

func c01Rle(s []byte) []c01Run {
	var out []c01Run
	for _, b := range s {
		if n := len(out); n > 0 && out[n-1][0] == int(b) {
			out[n-1][1]++
		} else {
			out = append(out, c01Run{int(b), 1})
		}
	}
	return out
}

func c01RandFree(r *rand.Rand, big bool) c01Case {
	c := c01Case{Mode: "free"}
	nw := 1 + r.Intn(4)
	if big {
		c.Tag = "big"
		c.Max = streams.DefaultMaxBufferSize
	} else {
		c.Tag = "small"
		c.Max = []int{1, 2, 7, 16, 64, 1000, 0}[r.Intn(7)]
	}
	for w := 0; w < nw; w++ {
		var pls [][]c01Run
		np := 1 + r.Intn(6)
		if big {
			np = 1 + r.Intn(4)
		}
		prev := -1
		for i := 0; i < np; i++ {
			if !big && r.Intn(10) == 0 {
				pls = append(pls, []c01Run{}) // empty write
				continue
			}
			var runs []c01Run
			nr := 1 + r.Intn(3)
			for j := 0; j < nr; j++ {
				var b int
				for {
					b = w + 8*r.Intn(32)
					if b != prev {
						break
					}
				}
				prev = b
				cnt := 1 + r.Intn(9)
				if r.Intn(4) == 0 {
					cnt = 1 + r.Intn(3000)
				}
				if big {
					cnt = 200000 + r.Intn(700000)
				}
				runs = append(runs, c01Run{b, cnt})
			}
			pls = append(pls, runs)
		}
		c.Ws = append(c.Ws, pls)
	}
	c.RK = r.Intn(3)
	if r.Intn(3) == 0 {
		c.Stage = 1
	}
	c.RN = []int{1, 2, 3, 7, 64, 4096, 100000}[r.Intn(7)]
	if big {
		c.RN = []int{4096, 65536, 1 << 20}[r.Intn(3)]
	}
	return c
}

// c01Chunks: the payloads of a ReadFrom writer = the 1024-byte chunks of its bytes.
func c01Chunks(runs []c01Run) [][]c01Run {
	b := c01Expand(runs)
	var out [][]c01Run
	for len(b) > 0 {
		n := 1024
		if n > len(b) {
			n = len(b)
		}
		out = append(out, c01Rle(b[:n]))
		b = b[n:]
	}
	return out
}

// c01Staged: the "blocked writer" shapes. Writer 0 (and 1) fill the pipe beyond its
// limit and block; then the consumer starts (stage 1: Read loop / WriteTo / ReadAll),
// or another producer calls ReadFrom, which lifts the limit (stage 2).
func c01Staged() []c01Case {
	var out []c01Case
	for _, max := range []int{16, 1024 * 1024} {
		unit := 10
		tag := "staged"
		if max > 1000 {
			unit = 400000
			tag = "big"
		}
		w0 := [][]c01Run{{{0, unit}}, {{8, unit}}, {{16, unit}, {24, 3}}, {{32, unit}}}
		w1 := [][]c01Run{{{1, unit}}, {{9, 2 * unit}}}
		for rk := 0; rk <= 2; rk++ {
			out = append(out, c01Case{Mode: "free", Tag: tag, strmCtlCase: strmCtlCase{Max: max}, Ws: [][][]c01Run{w0}, RK: rk, RN: 4096, Stage: 1})
			out = append(out, c01Case{Mode: "free", Tag: tag, strmCtlCase: strmCtlCase{Max: max}, Ws: [][][]c01Run{w0, w1}, RK: rk, RN: 7, Stage: 1})
		}
		rf := c01Chunks([]c01Run{{2, 1500}, {10, 700}})
		for rk := 0; rk <= 2; rk++ {
			out = append(out, c01Case{Mode: "free", Tag: tag, strmCtlCase: strmCtlCase{Max: max}, Ws: [][][]c01Run{w0, w1, rf}, RF: []bool{false, false, true}, RK: rk, RN: 4096, Stage: 2})
		}
	}
	for i := range out {
		if out[i].Tag == "big" && out[i].RN < 4096 {
			out[i].RN = 65536
		}
	}
	return out
}

func (c01) Gen(seed int64, tier string, emit func(any)) {
	// design-phase witnesses (also in corpus/C01)
	emit(c01Seq("F01a", 1024*1024, c01K("open"), c01W("abcdef"), c01K("close"), c01R(2), c01K("readall"), c01K("stats")))
	emit(c01Seq("F01b", 1024*1024, c01K("open"), c01W("abcdef"), c01K("close"), c01R(2), c01K("readall"), c01K("readall"), c01R(3), c01K("stats")))
	// sequential shapes
	emit(c01Seq("seq", 1024*1024, c01K("open"), c01W(""), c01W("a"), c01W("\x00\xff\xfe"), c01R(0), c01R(1), c01R(10), c01K("close"), c01R(4), c01K("stats")))
	emit(c01Seq("seq", 4, c01K("open"), c01W("abcdefgh"), c01K("stats"), c01K("writeto"), c01K("stats")))
	emit(c01Seq("seq", 4, c01K("open"), c01RF(c01Pattern(2100, 3)), c01K("close"), c01K("writeto"), c01K("stats")))
	emit(c01Seq("seq", 4, c01RF(c01Pattern(11000, 5)), c01K("writeto"), c01K("stats")))
	emit(c01Seq("seq", 8, c01K("open"), c01W("abc"), c01K("force"), c01W("de"), c01R(2), c01K("readall"), c01K("stats"), c01RF("zz")))
	emit(c01Seq("seq", 8, c01K("open"), c01W("abc"), c01K("force"), c01R(2), c01K("readall"), c01K("writeto"), c01K("stats")))

	// a writer blocked on the full pipe (limit 1) is released by ReadAll / ReadFrom lifting the limit
	for _, un := range []strmOp{c01K("readall"), c01RF("z")} {
		emit(c01Case{Mode: "ctl", Tag: "unblock", strmCtlCase: strmCtlCase{Max: 1,
			Progs: [][]strmOp{{c01K("open"), c01W("ab"), c01W("c"), c01K("close")}, {un, c01K("stats")}},
			Sched: []int{0, 0, 0, 0, 0, 0, 0, 0, 0, 1, 1, 0, 0, 0, 0, 0, 1, 1, 1, 1, 1, 1, 1, 1}}})
	}
	for _, c := range c01Staged() {
		emit(c)
	}

	// exhaustive: every schedule of length L over two threads, a few tiny program pairs
	L := 10
	if tier == "thorough" {
		L = 12
	}
	pairs := [][2][]strmOp{
		{{c01K("open"), c01W("ab"), c01K("close")}, {c01R(1), c01R(4)}},
		{{c01W("a"), c01W("bc")}, {c01K("readall"), c01K("stats")}},
	}
	if tier == "thorough" {
		pairs = append(pairs, [2][]strmOp{{c01K("open"), c01W("ab"), c01K("force")}, {c01W("c"), c01R(1)}})
	}
	for pi, pr := range pairs {
		max := []int{1, 8, 1}[pi]
		for m := 0; m < 1<<L; m++ {
			s := make([]int, L)
			for j := 0; j < L; j++ {
				s[j] = (m >> j) & 1
			}
			emit(c01Case{Mode: "ctl", Tag: "exh", strmCtlCase: strmCtlCase{Max: max, Progs: [][]strmOp{pr[0], pr[1]}, Sched: s}})
		}
	}

	r := rand.New(rand.NewSource(seed))
	nctl, nfree, nbig := 1500, 60, 3
	if tier == "thorough" {
		nctl, nfree, nbig = 8000, 400, 12
	}
	for i := 0; i < nctl; i++ {
		emit(c01RandCtl(r, tier))
	}
	for i := 0; i < nfree; i++ {
		emit(c01RandFree(r, false))
	}
	for i := 0; i < nbig; i++ {
		emit(c01RandFree(r, true))
	}
}

// ---- free-running mode ------------------------------------------------------

func c01Expand(runs []c01Run) []byte {
	n := 0
	for _, r := range runs {
		n += r[1]
	}
	b := make([]byte, 0, n)
	for _, r := range runs {
		for i := 0; i < r[1]; i++ {
			b = append(b, byte(r[0]))
		}
	}
	return b
}

type c01Collector struct {
	mu  sync.Mutex
	out []c01Run
}

func (c *c01Collector) Write(p []byte) (int, error) {
	c.mu.Lock()
	for _, b := range p {
		if n := len(c.out); n > 0 && c.out[n-1][0] == int(b) {
			c.out[n-1][1]++
		} else {
			c.out = append(c.out, c01Run{int(b), 1})
		}
	}
	c.mu.Unlock()
	return len(p), nil
}

// c01Deadline: free runs normally take milliseconds (big ones a second or two).
func c01Deadline(c c01Case) time.Duration {
	if c.Tag == "big" || c.Max >= 1<<20 {
		return 30 * time.Second
	}
	return 12 * time.Second
}

func c01RunFree(c c01Case) c01FreeObs {
	strmMu.Lock()
	defer strmMu.Unlock()
	oldMax := streams.DefaultMaxBufferSize
	streams.DefaultMaxBufferSize = c.Max
	s := streams.NewStdin()
	streams.DefaultMaxBufferSize = oldMax

	// the hook only perturbs the timing here
	var ctr uint32
	streams.VerifSetYield(func(x *streams.Stdin, _ string) {
		if x != s {
			return
		}
		n := atomic.AddUint32(&ctr, 1)
		h := n * 2654435761
		switch {
		case h%61 == 0:
			time.Sleep(time.Microsecond)
		case h%3 == 0:
			runtime.Gosched()
		}
	})
	defer streams.VerifSetYield(nil)

	var obs c01FreeObs
	var bad atomic.Bool
	var notes sync.Map
	isRF := func(w int) bool { return w < len(c.RF) && c.RF[w] }
	for range c.Ws {
		s.Open()
	}
	var wg, wgW sync.WaitGroup // everything / writers only
	writer := func(w int, pls [][]c01Run) {
		defer wg.Done()
		defer wgW.Done()
		defer s.Close()
		if isRF(w) {
			var all []byte
			for _, p := range pls {
				all = append(all, c01Expand(p)...)
			}
			n, err := s.ReadFrom(bytes.NewReader(all))
			if err != nil || n != int64(len(all)) {
				bad.Store(true)
				notes.Store("readfrom", fmt.Sprint(n, err))
			}
			return
		}
		for _, p := range pls {
			b := c01Expand(p)
			n, err := s.Write(b)
			if err != nil || n != len(b) {
				bad.Store(true)
				notes.Store("write", fmt.Sprint(n, err))
			}
		}
	}
	start := func(rf bool) {
		for w, pls := range c.Ws {
			if isRF(w) == rf {
				wg.Add(1)
				wgW.Add(1)
				go writer(w, pls)
			}
		}
	}
	wDone := make(chan struct{})
	// blocked: wait (at most 2 s) until the started writers are done or the pipe is full,
	// then a moment more so that a writer is inside Write's back-pressure loop
	blocked := func(done <-chan struct{}) {
		t0 := time.Now()
		for time.Since(t0) < 2*time.Second {
			select {
			case <-done:
				return
			default:
			}
			if v := s.VerifSnapshot(); v.Max > 0 && len(v.Buffer) >= v.Max {
				break
			}
			time.Sleep(200 * time.Microsecond)
		}
		time.Sleep(3 * time.Millisecond)
	}
	col := &c01Collector{}
	reader := func() {
		defer wg.Done()
		switch c.RK {
		case 0:
			p := make([]byte, c.RN)
			for {
				n, err := s.Read(p)
				if err != nil {
					if strmErrKind(err) != 1 || n != 0 {
						bad.Store(true)
						notes.Store("read", fmt.Sprint(n, err))
					}
					return
				}
				col.Write(p[:n])
			}
		case 1:
			if _, err := s.WriteTo(col); err != nil {
				bad.Store(true)
				notes.Store("writeto", err.Error())
			}
		default:
			b, err := s.ReadAll()
			if err != nil {
				bad.Store(true)
			}
			col.Write(b)
		}
	}
	stage := c.Stage
	if stage == 2 {
		hasRF := false
		for w := range c.Ws {
			hasRF = hasRF || isRF(w)
		}
		if !hasRF {
			stage = 1 // nothing would ever lift the limit
		}
	}
	deadline := time.After(c01Deadline(c))
	done := make(chan struct{})
	go func() {
		switch stage {
		case 1:
			start(false)
			start(true)
			go func() { wgW.Wait(); close(wDone) }()
			blocked(wDone)
			wg.Add(1)
			go reader()
		case 2:
			plain := make(chan struct{})
			var wgP sync.WaitGroup
			for w, pls := range c.Ws {
				if !isRF(w) {
					wg.Add(1)
					wgW.Add(1)
					wgP.Add(1)
					go func(w int, pls [][]c01Run) { defer wgP.Done(); writer(w, pls) }(w, pls)
				}
			}
			go func() { wgP.Wait(); close(plain) }()
			blocked(plain)
			start(true)
			wgW.Wait() // no reader yet: ReadFrom lifted the limit, every writer must finish
			wg.Add(1)
			go reader()
		default:
			start(false)
			start(true)
			wg.Add(1)
			go reader()
		}
		wg.Wait()
		close(done)
	}()
	select {
	case <-done:
	case <-deadline:
		// hang: cancel the pipe (every loop of Stdin polls the context) and give up
		obs.Hang = true
		notes.Store("hang", "deadline")
		s.ForceClose()
		select {
		case <-done:
		case <-time.After(3 * time.Second):
		}
	}
	col.mu.Lock()
	obs.Out = append([]c01Run{}, col.out...)
	col.mu.Unlock()
	if obs.Hang {
		sn, _ := strmSnapOf(s) // a stuck goroutine may hold the mutex: do not block on Stats()
		obs.W, obs.R = sn.W, sn.R
	} else {
		obs.W, obs.R = s.Stats()
	}
	obs.Err = bad.Load() && !obs.Hang
	notes.Range(func(k, v any) bool { obs.Note += fmt.Sprint(k, ":", v, " "); return true })
	return obs
}

func c01RleCoq(r []c01Run) string {
	e := make([]string, len(r))
	for i, x := range r {
		e[i] = fmt.Sprintf("(%d,%d)", x[0], x[1])
	}
	return "[" + strings.Join(e, ";") + "]"
}

// ---- run --------------------------------------------------------------------

func (c01) Run(raw json.RawMessage) Result {
	var c c01Case
	if err := json.Unmarshal(raw, &c); err != nil {
		die("C01: bad case: %v", err)
	}
	if c.Mode == "free" {
		o := c01RunFree(c)
		ws := make([]string, len(c.Ws))
		total, npay := 0, 0
		for i, pls := range c.Ws {
			ps := make([]string, len(pls))
			for j, p := range pls {
				ps[j] = c01RleCoq(p)
				for _, r := range p {
					total += r[1]
				}
				npay++
			}
			ws[i] = coqlit.List(ps)
		}
		coq := coqlit.App("Free", fmt.Sprint(c.Max), coqlit.List(ws), fmt.Sprint(c.RK), fmt.Sprint(c.RN),
			c01RleCoq(o.Out), fmt.Sprint(o.W), fmt.Sprint(o.R), coqlit.Bool(o.Err), coqlit.Bool(o.Hang))
		if len(o.Out) > 64 {
			o.Out = o.Out[:64] // keep the evidence small
		}
		return Result{Obs: o, Coq: coq, Nontrivial: len(c.Ws) > 1 || (c.Max > 0 && total > c.Max), Class: "free/" + c.Tag}
	}
	o := strmRunCtl(c.strmCtlCase)
	coq := coqlit.App("Ctl", fmt.Sprint(c.Max), strmProgsCoq(c.Progs), strmSchedCoq(c.Sched), o.coq())
	cls := c.Tag
	if cls == "" {
		cls = "ctl"
	}
	if strings.HasPrefix(cls, "F01") {
		cls = "witness"
	}
	return Result{Obs: c01Brief(o), Coq: coq, Nontrivial: o.Interleaved, Class: "ctl/" + cls}
}

// c01Brief keeps the evidence small: number of steps, last step, final buffer.
func c01Brief(o strmCtlObs) any {
	type brief struct {
		Steps       int         `json:"steps"`
		Returns     []strmEvent `json:"returns"`
		Buf         string      `json:"buf"`
		Final       *strmSnap   `json:"final,omitempty"`
		Interleaved bool        `json:"interleaved"`
		Hang        bool        `json:"hang,omitempty"`
	}
	b := brief{Steps: len(o.Steps), Buf: o.Buf, Interleaved: o.Interleaved, Hang: o.Hang}
	for _, s := range o.Steps {
		if s.Ev.K != "tau" && s.Ev.K != "idle" && len(s.Ev.B) <= 64 {
			b.Returns = append(b.Returns, s.Ev)
		}
	}
	if n := len(o.Steps); n > 0 {
		b.Final = &o.Steps[n-1].Sn
	}
	return b
}

func (c01) Shrink(raw json.RawMessage) []any {
	var c c01Case
	if err := json.Unmarshal(raw, &c); err != nil {
		return nil
	}
	var out []any
	if c.Mode == "free" {
		for w := range c.Ws {
			if len(c.Ws) > 1 {
				n := c
				n.Ws = append(append([][][]c01Run{}, c.Ws[:w]...), c.Ws[w+1:]...)
				// keep byte classes aligned with writer numbers: only drop the last writer
				if w == len(c.Ws)-1 {
					out = append(out, n)
				}
			}
			for j := range c.Ws[w] {
				n := c
				n.Ws = append([][][]c01Run{}, c.Ws...)
				n.Ws[w] = append(append([][]c01Run{}, c.Ws[w][:j]...), c.Ws[w][j+1:]...)
				out = append(out, n)
			}
		}
		if len(out) > 6 { // a hanging candidate costs a whole deadline
			out = out[:6]
		}
		return out
	}
	for _, s := range strmShrinkCtl(c.strmCtlCase) {
		out = append(out, c01Case{Mode: "ctl", Tag: c.Tag, strmCtlCase: s})
	}
	return out
}
