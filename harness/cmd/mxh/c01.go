//go:build prop_c01 || prop_all

package main

// C01 — Pipes deliver every byte exactly once, in order.
//
// Two kinds of case (see coq/theories/Check/C01.v):
//   ctl : thread programs + schedule, executed on a real streams.Stdin one atomic
//         action at a time through the verif yield hook (streams_shared.go);
//   free: real goroutines under the Go scheduler (the yield hook only perturbs the
//         timing): k writers with run-length coded payloads, one reader.

import (
	"encoding/json"
	"fmt"
	"math/rand"
	"runtime"
	"strings"
	"sync"
	"sync/atomic"
	"time"

	"github.com/lmorg/murex/builtins/pipes/streams"

	"verifharness/coqlit"
)

type c01Run [2]int // byte, count

type c01Case struct {
	Mode string `json:"mode"` // ctl | free
	Tag  string `json:"tag,omitempty"`
	strmCtlCase
	// free
	Ws [][][]c01Run `json:"ws,omitempty"` // writer -> payload -> runs
	RK int          `json:"rk,omitempty"` // 0 Read loop, 1 WriteTo, 2 ReadAll
	RN int          `json:"rn,omitempty"` // slice length of the Read loop
}

type c01FreeObs struct {
	Out  []c01Run `json:"out"`
	W    uint64   `json:"w"`
	R    uint64   `json:"r"`
	Bad  bool     `json:"bad"`
	Note string   `json:"note,omitempty"`
}

type c01 struct{}

func init() { register("C01", c01{}) }

// ---- generation -------------------------------------------------------------

func c01W(s string) strmOp  { return strmOp{K: "write", P: strmHex(s)} }
func c01R(n int) strmOp     { return strmOp{K: "read", N: n} }
func c01K(k string) strmOp  { return strmOp{K: k} }
func c01RF(s string) strmOp { return strmOp{K: "readfrom", P: strmHex(s)} }

func c01Seq(tag string, max int, ops ...strmOp) c01Case {
	// a single thread run to completion: generous schedule
	n := 0
	for _, o := range ops {
		n += 6 + len(o.P)/2048*6
	}
	sched := make([]int, n)
	return c01Case{Mode: "ctl", Tag: tag, strmCtlCase: strmCtlCase{Max: max, Progs: [][]strmOp{ops}, Sched: sched}}
}

var c01Payloads = []string{"", "a", "bc", "\x00", "\xff\xfe", "def", "\x00\x00", "xyzw", "hello\n", "\xc3\x28"}

func c01Pattern(n int, salt int) string {
	b := make([]byte, n)
	for i := range b {
		b[i] = byte((i*7 + salt) % 251)
	}
	return string(b)
}

func c01RandSched(r *rand.Rand, nthreads, n int) []int {
	s := make([]int, 0, n)
	style := r.Intn(3)
	for len(s) < n {
		t := r.Intn(nthreads)
		burst := 1
		switch style {
		case 1:
			burst = 1 + r.Intn(4)
		case 2:
			burst = 1 + r.Intn(12)
		}
		for j := 0; j < burst && len(s) < n; j++ {
			s = append(s, t)
		}
	}
	return s
}

func c01RandProg(r *rand.Rand, role int, max int) []strmOp {
	var p []strmOp
	pay := func() string {
		if r.Intn(6) == 0 {
			n := 1 + r.Intn(7)
			b := make([]byte, n)
			for i := range b {
				b[i] = byte(r.Intn(256))
			}
			return string(b)
		}
		return c01Payloads[r.Intn(len(c01Payloads))]
	}
	switch role {
	case 0: // writer
		p = append(p, c01K("open"))
		for i, n := 0, 1+r.Intn(3); i < n; i++ {
			if r.Intn(12) == 0 {
				p = append(p, c01RF(pay()+pay()))
			} else {
				p = append(p, c01W(pay()))
			}
		}
		if r.Intn(8) == 0 {
			p = append(p, c01K("stats"))
		}
		if r.Intn(10) != 0 {
			p = append(p, c01K("close"))
		}
	case 1: // reader with Read
		for i, n := 0, 1+r.Intn(4); i < n; i++ {
			p = append(p, c01R(r.Intn(5)))
		}
		if r.Intn(3) == 0 {
			p = append(p, c01K("stats"))
		}
	case 2: // reader with ReadAll / WriteTo
		if r.Intn(3) == 0 {
			p = append(p, c01R(1+r.Intn(3)))
		}
		if r.Intn(2) == 0 {
			p = append(p, c01K("readall"))
		} else {
			p = append(p, c01K("writeto"))
		}
		if r.Intn(2) == 0 {
			p = append(p, c01K("stats"))
		}
		if r.Intn(4) == 0 {
			p = append(p, c01K("readall"))
		}
		if r.Intn(4) == 0 {
			p = append(p, c01R(2))
		}
	case 3: // anything
		kinds := []string{"open", "close", "write", "read", "readall", "writeto", "stats", "force", "readfrom", "write", "read", "setdt", "getdt"}
		for i, n := 0, 1+r.Intn(4); i < n; i++ {
			k := kinds[r.Intn(len(kinds))]
			switch k {
			case "write":
				p = append(p, c01W(pay()))
			case "read":
				p = append(p, c01R(r.Intn(4)))
			case "readfrom":
				p = append(p, c01RF(pay()))
			case "setdt":
				p = append(p, strmOp{K: "setdt", P: strmHex([]string{"", "null", "json", "str"}[r.Intn(4)])})
			default:
				p = append(p, c01K(k))
			}
		}
	}
	return p
}

func c01RandCtl(r *rand.Rand, tier string) c01Case {
	maxes := []int{1, 2, 3, 4, 8, 8, 16, 0, 1024 * 1024}
	max := maxes[r.Intn(len(maxes))]
	nt := 1 + r.Intn(4)
	var progs [][]strmOp
	steps := 0
	for i := 0; i < nt; i++ {
		role := r.Intn(4)
		if i == 0 && nt > 1 {
			role = 0
		}
		if i == 1 {
			role = 1 + r.Intn(2)
		}
		p := c01RandProg(r, role, max)
		progs = append(progs, p)
		steps += 5 * len(p)
	}
	n := steps + r.Intn(steps+4)
	lim := 70
	if tier == "thorough" {
		lim = 160
	}
	if n > lim {
		n = lim
	}
	return c01Case{Mode: "ctl", Tag: fmt.Sprintf("rnd%dt", nt), strmCtlCase: strmCtlCase{Max: max, Progs: progs, Sched: c01RandSched(r, nt, n)}}
}

func c01Rle(s []byte) []c01Run {
	var out []c01Run
	for _, b := range s {
		if n := len(out); n > 0 && out[n-1][0] == int(b) {
			out[n-1][1]++
		} else {
			out = append(out, c01Run{int(b), 1})
		}
	}
	return out
}

func c01RandFree(r *rand.Rand, big bool) c01Case {
	c := c01Case{Mode: "free"}
	nw := 1 + r.Intn(4)
	if big {
		c.Tag = "big"
		c.Max = streams.DefaultMaxBufferSize
	} else {
		c.Tag = "small"
		c.Max = []int{1, 2, 7, 16, 64, 1000, 0}[r.Intn(7)]
	}
	for w := 0; w < nw; w++ {
		var pls [][]c01Run
		np := 1 + r.Intn(6)
		if big {
			np = 1 + r.Intn(4)
		}
		prev := -1
		for i := 0; i < np; i++ {
			if !big && r.Intn(10) == 0 {
				pls = append(pls, []c01Run{}) // empty write
				continue
			}
			var runs []c01Run
			nr := 1 + r.Intn(3)
			for j := 0; j < nr; j++ {
				var b int
				for {
					b = w + 8*r.Intn(32)
					if b != prev {
						break
					}
				}
				prev = b
				cnt := 1 + r.Intn(9)
				if r.Intn(4) == 0 {
					cnt = 1 + r.Intn(3000)
				}
				if big {
					cnt = 200000 + r.Intn(700000)
				}
				runs = append(runs, c01Run{b, cnt})
			}
			pls = append(pls, runs)
		}
		c.Ws = append(c.Ws, pls)
	}
	c.RK = r.Intn(3)
	c.RN = []int{1, 2, 3, 7, 64, 4096, 100000}[r.Intn(7)]
	if big {
		c.RN = []int{4096, 65536, 1 << 20}[r.Intn(3)]
	}
	return c
}

func (c01) Gen(seed int64, tier string, emit func(any)) {
	// design-phase witnesses (also in corpus/C01)
	emit(c01Seq("F01a", 1024*1024, c01K("open"), c01W("abcdef"), c01K("close"), c01R(2), c01K("readall"), c01K("stats")))
	emit(c01Seq("F01b", 1024*1024, c01K("open"), c01W("abcdef"), c01K("close"), c01R(2), c01K("readall"), c01K("readall"), c01R(3), c01K("stats")))
	// sequential shapes
	emit(c01Seq("seq", 1024*1024, c01K("open"), c01W(""), c01W("a"), c01W("\x00\xff\xfe"), c01R(0), c01R(1), c01R(10), c01K("close"), c01R(4), c01K("stats")))
	emit(c01Seq("seq", 4, c01K("open"), c01W("abcdefgh"), c01K("stats"), c01K("writeto"), c01K("stats")))
	emit(c01Seq("seq", 4, c01K("open"), c01RF(c01Pattern(2100, 3)), c01K("close"), c01K("writeto"), c01K("stats")))
	emit(c01Seq("seq", 4, c01RF(c01Pattern(11000, 5)), c01K("writeto"), c01K("stats")))
	emit(c01Seq("seq", 8, c01K("open"), c01W("abc"), c01K("force"), c01W("de"), c01R(2), c01K("readall"), c01K("stats"), c01RF("zz")))
	emit(c01Seq("seq", 8, c01K("open"), c01W("abc"), c01K("force"), c01R(2), c01K("readall"), c01K("writeto"), c01K("stats")))

	// exhaustive: every schedule of length L over two threads, a few tiny program pairs
	L := 10
	if tier == "thorough" {
		L = 12
	}
	pairs := [][2][]strmOp{
		{{c01K("open"), c01W("ab"), c01K("close")}, {c01R(1), c01R(4)}},
		{{c01W("a"), c01W("bc")}, {c01K("readall"), c01K("stats")}},
	}
	if tier == "thorough" {
		pairs = append(pairs, [2][]strmOp{{c01K("open"), c01W("ab"), c01K("force")}, {c01W("c"), c01R(1)}})
	}
	for pi, pr := range pairs {
		max := []int{1, 8, 1}[pi]
		for m := 0; m < 1<<L; m++ {
			s := make([]int, L)
			for j := 0; j < L; j++ {
				s[j] = (m >> j) & 1
			}
			emit(c01Case{Mode: "ctl", Tag: "exh", strmCtlCase: strmCtlCase{Max: max, Progs: [][]strmOp{pr[0], pr[1]}, Sched: s}})
		}
	}

	r := rand.New(rand.NewSource(seed))
	nctl, nfree, nbig := 1500, 60, 3
	if tier == "thorough" {
		nctl, nfree, nbig = 8000, 400, 12
	}
	for i := 0; i < nctl; i++ {
		emit(c01RandCtl(r, tier))
	}
	for i := 0; i < nfree; i++ {
		emit(c01RandFree(r, false))
	}
	for i := 0; i < nbig; i++ {
		emit(c01RandFree(r, true))
	}
}

// ---- free-running mode ------------------------------------------------------

func c01Expand(runs []c01Run) []byte {
	n := 0
	for _, r := range runs {
		n += r[1]
	}
	b := make([]byte, 0, n)
	for _, r := range runs {
		for i := 0; i < r[1]; i++ {
			b = append(b, byte(r[0]))
		}
	}
	return b
}

type c01Collector struct {
	mu  sync.Mutex
	out []c01Run
}

func (c *c01Collector) Write(p []byte) (int, error) {
	c.mu.Lock()
	for _, b := range p {
		if n := len(c.out); n > 0 && c.out[n-1][0] == int(b) {
			c.out[n-1][1]++
		} else {
			c.out = append(c.out, c01Run{int(b), 1})
		}
	}
	c.mu.Unlock()
	return len(p), nil
}

func c01RunFree(c c01Case) c01FreeObs {
	strmMu.Lock()
	defer strmMu.Unlock()
	oldMax := streams.DefaultMaxBufferSize
	streams.DefaultMaxBufferSize = c.Max
	s := streams.NewStdin()
	streams.DefaultMaxBufferSize = oldMax

	// the hook only perturbs the timing here
	var ctr uint32
	streams.VerifSetYield(func(x *streams.Stdin, _ string) {
		if x != s {
			return
		}
		n := atomic.AddUint32(&ctr, 1)
		h := n * 2654435761
		switch {
		case h%61 == 0:
			time.Sleep(time.Microsecond)
		case h%3 == 0:
			runtime.Gosched()
		}
	})
	defer streams.VerifSetYield(nil)

	var obs c01FreeObs
	var bad atomic.Bool
	var notes sync.Map
	for range c.Ws {
		s.Open()
	}
	var wg sync.WaitGroup
	for _, pls := range c.Ws {
		wg.Add(1)
		go func(pls [][]c01Run) {
			defer wg.Done()
			for _, p := range pls {
				b := c01Expand(p)
				n, err := s.Write(b)
				if err != nil || n != len(b) {
					bad.Store(true)
					notes.Store("write", fmt.Sprint(n, err))
				}
			}
			s.Close()
		}(pls)
	}
	col := &c01Collector{}
	wg.Add(1)
	go func() {
		defer wg.Done()
		switch c.RK {
		case 0:
			p := make([]byte, c.RN)
			for {
				n, err := s.Read(p)
				if err != nil {
					if strmErrKind(err) != 1 || n != 0 {
						bad.Store(true)
						notes.Store("read", fmt.Sprint(n, err))
					}
					return
				}
				col.Write(p[:n])
			}
		case 1:
			if _, err := s.WriteTo(col); err != nil {
				bad.Store(true)
				notes.Store("writeto", err.Error())
			}
		default:
			b, err := s.ReadAll()
			if err != nil {
				bad.Store(true)
			}
			col.Write(b)
		}
	}()
	done := make(chan struct{})
	go func() { wg.Wait(); close(done) }()
	select {
	case <-done:
	case <-time.After(60 * time.Second):
		bad.Store(true)
		notes.Store("hang", "timeout")
		s.ForceClose()
		select {
		case <-done:
		case <-time.After(5 * time.Second):
		}
	}
	col.mu.Lock()
	obs.Out = append([]c01Run{}, col.out...)
	col.mu.Unlock()
	obs.W, obs.R = s.Stats()
	obs.Bad = bad.Load()
	notes.Range(func(k, v any) bool { obs.Note += fmt.Sprint(k, ":", v, " "); return true })
	return obs
}

func c01RleCoq(r []c01Run) string {
	e := make([]string, len(r))
	for i, x := range r {
		e[i] = fmt.Sprintf("(%d,%d)", x[0], x[1])
	}
	return "[" + strings.Join(e, ";") + "]"
}

// ---- run --------------------------------------------------------------------

func (c01) Run(raw json.RawMessage) Result {
	var c c01Case
	if err := json.Unmarshal(raw, &c); err != nil {
		die("C01: bad case: %v", err)
	}
	if c.Mode == "free" {
		o := c01RunFree(c)
		ws := make([]string, len(c.Ws))
		total, npay := 0, 0
		for i, pls := range c.Ws {
			ps := make([]string, len(pls))
			for j, p := range pls {
				ps[j] = c01RleCoq(p)
				for _, r := range p {
					total += r[1]
				}
				npay++
			}
			ws[i] = coqlit.List(ps)
		}
		coq := coqlit.App("Free", fmt.Sprint(c.Max), coqlit.List(ws), fmt.Sprint(c.RK), fmt.Sprint(c.RN),
			c01RleCoq(o.Out), fmt.Sprint(o.W), fmt.Sprint(o.R), coqlit.Bool(o.Bad))
		return Result{Obs: o, Coq: coq, Nontrivial: len(c.Ws) > 1 || (c.Max > 0 && total > c.Max), Class: "free/" + c.Tag}
	}
	o := strmRunCtl(c.strmCtlCase)
	coq := coqlit.App("Ctl", fmt.Sprint(c.Max), strmProgsCoq(c.Progs), strmSchedCoq(c.Sched), o.coq())
	cls := c.Tag
	if cls == "" {
		cls = "ctl"
	}
	if strings.HasPrefix(cls, "F01") {
		cls = "witness"
	}
	return Result{Obs: c01Brief(o), Coq: coq, Nontrivial: o.Interleaved, Class: "ctl/" + cls}
}

// c01Brief keeps the evidence small: number of steps, last step, final buffer.
func c01Brief(o strmCtlObs) any {
	type brief struct {
		Steps       int         `json:"steps"`
		Returns     []strmEvent `json:"returns"`
		Buf         string      `json:"buf"`
		Final       *strmSnap   `json:"final,omitempty"`
		Interleaved bool        `json:"interleaved"`
		Hang        bool        `json:"hang,omitempty"`
	}
	b := brief{Steps: len(o.Steps), Buf: o.Buf, Interleaved: o.Interleaved, Hang: o.Hang}
	for _, s := range o.Steps {
		if s.Ev.K != "tau" && s.Ev.K != "idle" && len(s.Ev.B) <= 64 {
			b.Returns = append(b.Returns, s.Ev)
		}
	}
	if n := len(o.Steps); n > 0 {
		b.Final = &o.Steps[n-1].Sn
	}
	return b
}

func (c01) Shrink(raw json.RawMessage) []any {
	var c c01Case
	if err := json.Unmarshal(raw, &c); err != nil {
		return nil
	}
	var out []any
	if c.Mode == "free" {
		for w := range c.Ws {
			if len(c.Ws) > 1 {
				n := c
				n.Ws = append(append([][][]c01Run{}, c.Ws[:w]...), c.Ws[w+1:]...)
				// keep byte classes aligned with writer numbers: only drop the last writer
				if w == len(c.Ws)-1 {
					out = append(out, n)
				}
			}
			for j := range c.Ws[w] {
				n := c
				n.Ws = append([][][]c01Run{}, c.Ws...)
				n.Ws[w] = append(append([][]c01Run{}, c.Ws[w][:j]...), c.Ws[w][j+1:]...)
				out = append(out, n)
			}
		}
		return out
	}
	for _, s := range strmShrinkCtl(c.strmCtlCase) {
		out = append(out, c01Case{Mode: "ctl", Tag: c.Tag, strmCtlCase: s})
	}
	return out
}
