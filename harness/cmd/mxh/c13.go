//go:build prop_c13 || prop_all

package main

// C13 — Scalar values survive conversion to and from strings.
//
// Direct cases call types.ConvertGoType; murex cases run a small block that
// stores the value's string form in a typed variable, re-reads it (as a string,
// into another typed variable, in an expression) and prints it.

import (
	"encoding/hex"
	"encoding/json"
	"fmt"
	"math"
	"math/rand"
	"strconv"
	"strings"
	"time"

	"github.com/lmorg/murex/lang/types"

	"verifharness/coqlit"
)

type c13Case struct {
	K  string `json:"k"`            // int|strint|bool|strbool|num|strnum|floatint|mxint|mxbool|mxnum
	Z  string `json:"z,omitempty"`  // decimal int64
	S  string `json:"s,omitempty"`  // hex of a string
	B  bool   `json:"b,omitempty"`  //
	F  string `json:"f,omitempty"`  // float64 bits, decimal
	T  int    `json:"t,omitempty"`  // template 0..3
	Ty string `json:"ty,omitempty"` // num|float (murex data type for num cases)
}

type c13Obs struct {
	S     string `json:"s,omitempty"`
	Back  string `json:"back,omitempty"`
	Err   bool   `json:"err,omitempty"`
	Out   string `json:"out,omitempty"`
	Block string `json:"block,omitempty"`
}

type c13 struct{}

func init() { register("C13", c13{}) }

func c13OutZ(v any, err error) (string, string) {
	if err != nil {
		return "(Err 1)", "error"
	}
	i, ok := v.(int)
	if !ok {
		return "Panic", fmt.Sprintf("%T", v)
	}
	return "(Ok " + coqlit.Z(int64(i)) + ")", strconv.Itoa(i)
}

func c13OutF(v any, err error) (string, string) {
	if err != nil {
		return "(Err 1)", "error"
	}
	f, ok := v.(float64)
	if !ok {
		return "Panic", fmt.Sprintf("%T", v)
	}
	return "(Ok " + coqlit.N(math.Float64bits(f)) + ")", strconv.FormatUint(math.Float64bits(f), 10)
}

// what goStringRecast hands to ParseFloat, computed independently of murex
func c13ParseArg(s string) string {
	s = strings.TrimSpace(s)
	if s == "" {
		s = "0"
	}
	return s
}

func c13LibParse(arg string) string {
	f, err := strconv.ParseFloat(arg, 64)
	return coqlit.Option(err == nil, coqlit.N(math.Float64bits(f)))
}

var c13Tmpl = []string{"T0", "T1", "T2", "T3"}

func c13Block(ty string, t int, text string) string {
	switch t {
	case 0:
		return fmt.Sprintf("set %s v = %s; out $v", ty, text)
	case 1:
		return fmt.Sprintf("set %s v = %s; set %s w = $v; out $w", ty, text, ty)
	case 2:
		return fmt.Sprintf("set %s v = %s; x = $v; out $x", ty, text)
	default:
		return fmt.Sprintf("set %s v = %s; x = $v + 0; out $x", ty, text)
	}
}

func c13Mx(block string) (string, c13Obs) {
	r := RunMurex(block, 20*time.Second)
	o := c13Obs{Block: block, Out: r.Stdout}
	switch {
	case r.Timeout:
		return "OutOfFuel", o
	case r.Err || r.ExitNum != 0 || r.Stderr != "":
		o.Err = true
		return "(Err 1)", o
	}
	return "(Ok " + coqlit.Bytes(r.Stdout) + ")", o
}

func (c13) Run(raw json.RawMessage) Result {
	var c c13Case
	if err := json.Unmarshal(raw, &c); err != nil {
		die("C13: bad case: %v", err)
	}
	str := func() string {
		b, err := hex.DecodeString(c.S)
		if err != nil {
			die("C13: bad hex: %v", err)
		}
		return string(b)
	}
	z := func() int64 {
		n, err := strconv.ParseInt(c.Z, 10, 64)
		if err != nil {
			die("C13: bad int: %v", err)
		}
		return n
	}
	fl := func() float64 {
		n, err := strconv.ParseUint(c.F, 10, 64)
		if err != nil {
			die("C13: bad float bits: %v", err)
		}
		return math.Float64frombits(n)
	}
	initMurex()
	var coq string
	var o c13Obs
	nt := false
	class := c.K
	switch c.K {
	case "int":
		n := z()
		v, err := types.ConvertGoType(int(n), types.String)
		s, _ := v.(string)
		if err != nil {
			s = "\x00error"
		}
		bk, bs := c13OutZ(types.ConvertGoType(s, types.Integer))
		o.S, o.Back = s, bs
		coq = coqlit.App("CInt", coqlit.Z(n), coqlit.Bytes(s), bk)
		if n > -(1<<53) && n < 1<<53 {
			nt = true
			class += "/below2^53"
		} else {
			class += "/beyond"
		}
	case "strint":
		s := str()
		bk, bs := c13OutZ(types.ConvertGoType(s, types.Integer))
		o.S, o.Back = s, bs
		coq = coqlit.App("CStrInt", coqlit.Bytes(s), bk)
		if len(strings.TrimSpace(s)) >= 19 {
			class += "/19+digits"
		}
	case "bool":
		v, err := types.ConvertGoType(c.B, types.String)
		s, _ := v.(string)
		if err != nil {
			s = "\x00error"
		}
		b2, err2 := types.ConvertGoType(s, types.Boolean)
		back, _ := b2.(bool)
		if err2 != nil {
			back = !c.B
		}
		o.S, o.Back = s, strconv.FormatBool(back)
		coq = coqlit.App("CBool", coqlit.Bool(c.B), coqlit.Bytes(s), coqlit.Bool(back))
		nt = true
	case "strbool":
		s := str()
		b2, _ := types.ConvertGoType(s, types.Boolean)
		back, _ := b2.(bool)
		o.S, o.Back = s, strconv.FormatBool(back)
		coq = coqlit.App("CStrBool", coqlit.Bytes(s), coqlit.Bool(back))
	case "num":
		f := fl()
		v, err := types.ConvertGoType(f, types.String)
		s, _ := v.(string)
		if err != nil {
			s = "\x00error"
		}
		ty := types.Number
		if c.Ty == "float" {
			ty = types.Float
		}
		bk, bs := c13OutF(types.ConvertGoType(s, ty))
		o.S, o.Back = s, bs
		arg := c13ParseArg(s)
		coq = coqlit.App("CNum", coqlit.N(math.Float64bits(f)), coqlit.Bytes(s), bk,
			coqlit.Bytes(strconv.FormatFloat(f, 'f', -1, 64)), coqlit.Bytes(arg), c13LibParse(arg))
		if !math.IsInf(f, 0) && !math.IsNaN(f) {
			nt = true
			class += "/finite"
		} else {
			class += "/nonfinite"
		}
	case "strnum":
		s := str()
		bk, bs := c13OutF(types.ConvertGoType(s, types.Number))
		o.S, o.Back = s, bs
		arg := c13ParseArg(s)
		coq = coqlit.App("CStrNum", coqlit.Bytes(s), bk, coqlit.Bytes(arg), c13LibParse(arg))
	case "floatint":
		f := fl()
		bk, bs := c13OutZ(types.ConvertGoType(f, types.Integer))
		o.S, o.Back = strconv.FormatFloat(f, 'g', -1, 64), bs
		coq = coqlit.App("CFloatInt", coqlit.N(math.Float64bits(f)), bk)
	case "mxint":
		n := z()
		text := strconv.Itoa(int(n))
		var out string
		out, o = c13Mx(c13Block("int", c.T, text))
		coq = coqlit.App("CMxInt", c13Tmpl[c.T], coqlit.Z(n), coqlit.Bytes(text), out)
		nt = n > -(1<<53) && n < 1<<53
		class += "/" + c13Tmpl[c.T]
	case "mxbool":
		text := strconv.FormatBool(c.B)
		var out string
		out, o = c13Mx(c13Block("bool", c.T, text))
		coq = coqlit.App("CMxBool", c13Tmpl[c.T], coqlit.Bool(c.B), coqlit.Bytes(text), out)
		nt = true
		class += "/" + c13Tmpl[c.T]
	case "mxnum":
		f := fl()
		text := strconv.FormatFloat(f, 'f', -1, 64)
		rt := "?"
		if g, err := strconv.ParseFloat(text, 64); err == nil {
			rt = strconv.FormatFloat(g, 'f', -1, 64)
		}
		ty := "num"
		if c.Ty == "float" {
			ty = "float"
		}
		var out string
		out, o = c13Mx(c13Block(ty, c.T, text))
		coq = coqlit.App("CMxNum", c13Tmpl[c.T], coqlit.N(math.Float64bits(f)), coqlit.Bytes(text), coqlit.Bytes(rt), out)
		nt = true
		class += "/" + c13Tmpl[c.T]
	default:
		die("C13: bad kind %q", c.K)
	}
	return Result{Obs: o, Coq: coq, Nontrivial: nt, Class: class}
}

// ---- generation ----

func c13Ints() []int64 {
	var v []int64
	add := func(n int64) { v = append(v, n, -n) }
	for n := int64(0); n <= 20; n++ {
		add(n)
	}
	p := int64(1)
	for k := 1; k <= 18; k++ { // decimal boundaries
		p *= 10
		add(p - 1)
		add(p)
		add(p + 1)
	}
	for k := uint(3); k <= 62; k++ { // binary boundaries
		add(1<<k - 1)
		add(1 << k)
		if k < 62 {
			add(1<<k + 1)
		}
	}
	for d := int64(-6); d <= 6; d++ { // around 2^53
		add(1<<53 + d)
		add(1<<54 + d)
	}
	return v
}

func c13RandInt(r *rand.Rand) int64 {
	var n int64
	switch r.Intn(4) {
	case 0:
		n = r.Int63n(1 << 53)
	case 1:
		n = r.Int63n(1 << uint(1+r.Intn(62)))
	case 2:
		n = 1<<53 + r.Int63n(4096) - 2048
	default:
		n = 1<<uint(40+r.Intn(22)) + r.Int63n(2048) - 1024
	}
	if r.Intn(2) == 0 {
		n = -n
	}
	return n
}

var c13Floats = []float64{
	0, math.Copysign(0, -1), 1, -1, 0.1, 0.2, 0.30000000000000004, 1.0 / 3, 2.0 / 3, 100, 1e15, 1e16, 1e17, 1e21, 1e22, 1e23, 1e100, 1e-7, 1e-100,
	math.MaxFloat64, -math.MaxFloat64, math.SmallestNonzeroFloat64, -math.SmallestNonzeroFloat64,
	2.2250738585072014e-308, 2.225073858507201e-308, 4.4501477170144023e-308, 1.7976931348623155e308,
	9007199254740991, 9007199254740992, 9007199254740994, 4503599627370496.5, 4503599627370495.5, 0.5, 0.25, 1.5, 123456789.123456789,
	5e-324, 1e-323, 2.5e-320, 3.141592653589793, 2.718281828459045, 1.7976931348623157e308, 8.98846567431158e307, 1.0000000000000002, 0.9999999999999999,
	math.Inf(1), math.Inf(-1), math.NaN(),
	// magnitudes at and beyond 2^63 / 2^64
	9223372036854775807, 9223372036854775808, -9223372036854775808, 9223372036854777856, -9223372036854777856, 1e19, -1e19,
	18446744073709551616, 1.8446744073709552e19, 1e20, 1e30, -1e300, 9.223372036854775e18, -9.223372036854775e18,
	// more subnormals and 17-digit decimals
	math.Float64frombits(1), math.Float64frombits(2), math.Float64frombits(1<<51), math.Float64frombits(1<<52 - 1), math.Float64frombits(1 << 52),
	math.Float64frombits(1<<63 | 1), math.Float64frombits(1<<63 | (1<<52 - 1)),
	0.1 + 0.2, 0.1 + 0.7, 1.1 * 1.1, 5e-324 * 3, 2.2250738585072011e-308, 1.2345678901234567, 12345678.901234567, 0.000012345678901234567, 8.41e21, 9.5367431640625e-07,
}

func c13RandFloat(r *rand.Rand) float64 {
	switch r.Intn(5) {
	case 0: // any bits
		return math.Float64frombits(r.Uint64())
	case 1: // subnormal
		return math.Float64frombits(r.Uint64() & (1<<52 - 1) | uint64(r.Intn(2))<<63)
	case 2: // human sized
		return math.Float64frombits(uint64(1023-30+r.Intn(90))<<52 | r.Uint64()&(1<<52-1) | uint64(r.Intn(2))<<63)
	case 3: // near the exponent limits
		e := uint64(r.Intn(4))
		if r.Intn(2) == 0 {
			e = 2046 - e
		}
		return math.Float64frombits(e<<52 | r.Uint64()&(1<<52-1) | uint64(r.Intn(2))<<63)
	default: // short decimals
		f, _ := strconv.ParseFloat(fmt.Sprintf("%d.%d", r.Intn(100000), r.Intn(1000000)), 64)
		if r.Intn(2) == 0 {
			f = -f
		}
		return f
	}
}

var c13BadInts = []string{"-", "+", "--5", "5-", "5 5", "abc", "12a", "- 5", "+-5", ".", "5x", "a5", "1 2 3", "-+1", "٣"}
var c13BoolWords = []string{"true", "false", "TRUE", "False", " no ", "off", "OFF", "fail", "failed", "Failed", "disabled", "null", "Null", "0", "1", "yes", "", "  ",
	"00", "0.0", "nope", "on", "enabled", "\tfalse\n", "f", "t", "no way", "fals", "falsey", "nil", "-0", "disable"}
var c13Spaces = []string{"", " ", "  ", "\t", "\n", "\r\n", " \t\n\v\f\r "}

func (c13) Gen(seed int64, tier string, emit func(any)) {
	hx := func(s string) string { return hex.EncodeToString([]byte(s)) }
	zi := func(n int64) string { return strconv.FormatInt(n, 10) }
	fb := func(f float64) string { return strconv.FormatUint(math.Float64bits(f), 10) }
	// fixed part: boundaries
	for _, n := range c13Ints() {
		emit(c13Case{K: "int", Z: zi(n)})
	}
	for _, n := range []int64{0, 1, -1, 7, 1<<53 - 1, -(1<<53 - 1), 1 << 53, 1<<53 + 1, -(1<<53 + 1), 1<<53 + 2, 1<<62 + 1, 999999999999999, 1000000000000000000} {
		for t := 0; t < 4; t++ {
			if t == 3 && (n > 1<<53 || n < -(1<<53)) {
				continue
			}
			emit(c13Case{K: "mxint", T: t, Z: zi(n)})
		}
	}
	for _, b := range []bool{true, false} {
		emit(c13Case{K: "bool", B: b})
		for t := 0; t < 3; t++ {
			emit(c13Case{K: "mxbool", T: t, B: b})
		}
	}
	for _, w := range c13BoolWords {
		emit(c13Case{K: "strbool", S: hx(w)})
	}
	for _, s := range c13BadInts {
		emit(c13Case{K: "strint", S: hx(s)})
	}
	for _, s := range []string{"", " ", "0", "-0", "+0", "007", "+7", " 7 ", "\t-12\n", "9007199254740993", "-9007199254740993", "18014398509481985", "00000000000000000000000000001",
		"4611686018427387904", "4611686018427387905", "9007199254740992", "9007199254740994", "9007199254740995"} {
		emit(c13Case{K: "strint", S: hx(s)})
	}
	// magnitudes at and beyond int64 (outside the property's bound; int(f) as amd64 defines it),
	// and digit strings that overflow binary64
	for _, s := range []string{"9223372036854775295", "9223372036854775296", "9223372036854775807", "9223372036854775808", "-9223372036854775808", "-9223372036854775809",
		"9223372036854776832", "18446744073709551615", "18446744073709551616", "-18446744073709551616", "10000000000000000000", "100000000000000000000000000000",
		"179769313486231570814527423731704356798070567525844996598917476803157260780028538760589558632766878171540458953514382464234321326889464182768467546703537516986049910576551282076245490090389328944075868508455133942304583236903222948165808559332123348274797826204144723168738177180919299881250404026184124858368",
		"179769313486231580793728971405303415079934132710037826936173778980444968292764750946649017977587207096330286416692887910946555547851940402630657488671505820681908902000708383676273854845817711531764475730270069855571366959622842914819860834936475292719074168444365510704342711559699508093042880177904174497791",
		"179769313486231580793728971405303415079934132710037826936173778980444968292764750946649017977587207096330286416692887910946555547851940402630657488671505820681908902000708383676273854845817711531764475730270069855571366959622842914819860834936475292719074168444365510704342711559699508093042880177904174497792",
		"1" + strings.Repeat("0", 400), "-1" + strings.Repeat("0", 309)} {
		emit(c13Case{K: "strint", S: hx(s)})
	}
	for _, f := range c13Floats {
		emit(c13Case{K: "floatint", F: fb(f)})
		emit(c13Case{K: "num", F: fb(f)})
		emit(c13Case{K: "num", F: fb(f), Ty: "float"})
		if !math.IsInf(f, 0) && !math.IsNaN(f) {
			for t := 0; t < 3; t++ {
				emit(c13Case{K: "mxnum", T: t, F: fb(f), Ty: []string{"num", "float"}[t%2]})
			}
		}
	}
	for _, s := range []string{"", " ", "0", "-0", " 1.5 ", "\t-2.5e3\n", "abc", "1e5", "0x1p-2", "1.", ".5", "+.5e-3", "1e400", "-1e400", "1e-400", "1_000", "inf", "-Inf", "nan", "1,5", "--1", "1.2.3"} {
		emit(c13Case{K: "strnum", S: hx(s)})
	}
	// random part
	r := rand.New(rand.NewSource(seed))
	n := 500
	if tier == "thorough" {
		n = 3000
	}
	for i := 0; i < n; i++ {
		z := c13RandInt(r)
		emit(c13Case{K: "int", Z: zi(z)})
		// the same digits with white space, sign and leading zeros
		s := strconv.FormatInt(z, 10)
		if z >= 0 && r.Intn(3) == 0 {
			s = "+" + s
		}
		if r.Intn(3) == 0 {
			sign := ""
			if s[0] == '-' || s[0] == '+' {
				sign, s = s[:1], s[1:]
			}
			s = sign + strings.Repeat("0", 1+r.Intn(4)) + s
		}
		s = c13Spaces[r.Intn(len(c13Spaces))] + s + c13Spaces[r.Intn(len(c13Spaces))]
		emit(c13Case{K: "strint", S: hx(s)})
		f := c13RandFloat(r)
		emit(c13Case{K: "num", F: fb(f), Ty: []string{"num", "float"}[i%2]})
		if !math.IsInf(f, 0) && !math.IsNaN(f) {
			emit(c13Case{K: "strnum", S: hx(c13Spaces[r.Intn(len(c13Spaces))] + strconv.FormatFloat(f, 'f', -1, 64) + c13Spaces[r.Intn(len(c13Spaces))])})
		}
		if i%2 == 0 {
			emit(c13Case{K: "floatint", F: fb(c13RandFloat(r))})
		}
		if i%5 == 0 { // digit strings of 19..40 digits: beyond int64, int(f) = -2^63 on amd64
			d := make([]byte, 19+r.Intn(22))
			for j := range d {
				d[j] = byte('0' + r.Intn(10))
			}
			if d[0] == '0' {
				d[0] = '9'
			}
			sg := []string{"", "-", "+"}[r.Intn(3)]
			emit(c13Case{K: "strint", S: hx(sg + string(d))})
		}
		if i%3 == 0 {
			t := r.Intn(4)
			if t == 3 && (z > 1<<53 || z < -(1<<53)) {
				t = 2
			}
			emit(c13Case{K: "mxint", T: t, Z: zi(z)})
			if !math.IsInf(f, 0) && !math.IsNaN(f) {
				emit(c13Case{K: "mxnum", T: r.Intn(3), F: fb(f), Ty: []string{"num", "float"}[r.Intn(2)]})
			}
			w := c13BoolWords[r.Intn(len(c13BoolWords))]
			if r.Intn(2) == 0 {
				w = strings.ToUpper(w)
			}
			emit(c13Case{K: "strbool", S: hx(c13Spaces[r.Intn(len(c13Spaces))] + w + c13Spaces[r.Intn(len(c13Spaces))])})
		}
	}
}
