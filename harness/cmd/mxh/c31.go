//go:build prop_c31 || prop_all

package main

// C31 — The test framework passes a unit test only if every assertion holds.
// A case = a murex function with fixed stdout / stderr / exit number + a unit
// test plan.  The harness measures what the function does when run on its own,
// how each auxiliary block of the plan behaves, what Go's regexp and
// lang.UnmarshalData answer for the two streams (library oracles), and then what
// UnitTests.Run reports for the plan.

import (
	"encoding/json"
	"fmt"
	"math/rand"
	"os"
	"regexp"
	"strings"
	"sync/atomic"
	"time"

	"github.com/lmorg/murex/lang"
	"github.com/lmorg/murex/lang/ref"

	"verifharness/coqlit"
)

type c31Case struct {
	Class   string            `json:"class"`
	Body    string            `json:"body"`              // block of the function under test
	Missing bool              `json:"missing,omitempty"` // the function is not defined at all
	Private bool              `json:"private,omitempty"` // defined as a private function
	Plan    lang.UnitTestPlan `json:"plan"`
}

type c31Obs struct {
	Passed  bool   `json:"passed"`
	ExitNum int    `json:"exit_num"`
	FnRan   bool   `json:"fn_ran"`
	Exit    int    `json:"exit"`
	Stdout  string `json:"stdout"`
	OutType string `json:"out_type"`
	Stderr  string `json:"stderr"`
	ErrType string `json:"err_type"`
	Timeout bool   `json:"timeout,omitempty"`
}

type c31 struct{}

func init() { register("C31", c31{}) }

var c31Counter int32

type c31Blk struct {
	compileErr  bool
	exit        int
	stderrEmpty bool
}

func (b c31Blk) coq() string {
	if b.compileErr {
		return "BlkCompileErr"
	}
	return coqlit.App("BlkRan", coqlit.Z(int64(b.exit)), coqlit.Bool(b.stderrEmpty))
}

// run a block the way runTest runs PreBlock / PostBlock
func c31RunAux(block string, fileRef *ref.File) c31Blk {
	fork := lang.ShellProcess.Fork(lang.F_FUNCTION | lang.F_NEW_MODULE | lang.F_BACKGROUND | lang.F_NO_STDIN | lang.F_CREATE_STDOUT | lang.F_CREATE_STDERR)
	fork.FileRef = fileRef
	fork.Name.Set("(c31 aux)")
	n, err := fork.Execute([]rune(block))
	if err != nil {
		return c31Blk{compileErr: true}
	}
	e, _ := fork.Stderr.ReadAll()
	return c31Blk{exit: n, stderrEmpty: len(e) == 0}
}

// run a block the way utBlock runs StdoutBlock / StderrBlock
func c31RunCheckBlock(block string, stdin []byte, dt string) c31Blk {
	fork := lang.ShellProcess.Fork(lang.F_FUNCTION | lang.F_CREATE_STDIN | lang.F_CREATE_STDERR | lang.F_CREATE_STDOUT)
	fork.IsMethod = true
	fork.Name.Set("(c31 check block)")
	fork.Stdin.SetDataType(dt)
	fork.Stdin.Write(stdin)
	n, err := fork.Execute([]rune(block))
	if err != nil {
		return c31Blk{compileErr: true}
	}
	e, _ := fork.Stderr.ReadAll()
	return c31Blk{exit: n, stderrEmpty: len(e) == 0}
}

func c31Regex(pat string, subject []byte) string {
	if pat == "" {
		return "RxNoMatch" // never queried
	}
	rx, err := regexp.Compile(pat)
	if err != nil {
		return "RxCompileErr"
	}
	if rx.Match(subject) {
		return "RxMatch"
	}
	return "RxNoMatch"
}

// lang.UnmarshalData on a stream, reduced to: error / is an array type / is a map type / length
func c31Shape(b []byte, dt string) string {
	fork := lang.ShellProcess.Fork(lang.F_CREATE_STDIN)
	fork.Stdin.SetDataType(dt)
	if _, err := fork.Stdin.Write(b); err != nil {
		return "ShErr"
	}
	v, err := lang.UnmarshalData(fork.Process, dt)
	if err != nil {
		return "ShErr"
	}
	isArr, isMap, l := false, false, -1
	switch t := v.(type) {
	case []string:
		isArr, l = true, len(t)
	case []any:
		isArr, l = true, len(t)
	case []float64:
		l = len(t)
	case []int:
		l = len(t)
	case []bool:
		l = len(t)
	case [][]string:
		l = len(t)
	case [][]any:
		l = len(t)
	case map[string]string:
		isMap, l = true, len(t)
	case map[string]any:
		isMap, l = true, len(t)
	case map[any]any:
		isMap, l = true, len(t)
	case map[any]string:
		isMap = true
	}
	return coqlit.App("ShVal", coqlit.Bool(isArr), coqlit.Bool(isMap), coqlit.Option(l >= 0, coqlit.Z(int64(l))))
}

func (c31) Run(raw json.RawMessage) Result {
	var c c31Case
	if err := json.Unmarshal(raw, &c); err != nil {
		die("C31: bad case: %v", err)
	}
	initMurex()
	lang.ShellProcess.Config.Set("test", "auto-report", false, nil)

	id := atomic.AddInt32(&c31Counter, 1)
	fileRef := &ref.File{Source: &ref.Source{Filename: "c31.mx", Module: fmt.Sprintf("verif/c31-%d-%d", os.Getpid(), id), DateTime: time.Now()}}
	name := fmt.Sprintf("c31fn%d", id)
	plan := c.Plan

	// 1. what the function does on its own (same fork flags as runTest)
	var o c31Obs
	if !c.Missing {
		fork := lang.ShellProcess.Fork(lang.F_FUNCTION | lang.F_NEW_MODULE | lang.F_BACKGROUND | lang.F_NO_STDIN | lang.F_CREATE_STDOUT | lang.F_CREATE_STDERR)
		fork.FileRef = fileRef
		fork.Name.Set(name)
		fork.Parameters.DefineParsed(plan.Parameters)
		n, err := fork.Execute([]rune(c.Body))
		o.FnRan = err == nil
		o.Exit = n
		b, _ := fork.Stdout.ReadAll()
		o.Stdout = string(b)
		o.OutType = fork.Stdout.GetDataType()
		b, _ = fork.Stderr.ReadAll()
		o.Stderr = string(b)
		o.ErrType = fork.Stderr.GetDataType()
	}

	// 2. auxiliary blocks and library oracles
	pre, post, outBlk, errBlk := c31Blk{compileErr: true}, c31Blk{compileErr: true}, c31Blk{compileErr: true}, c31Blk{compileErr: true}
	if plan.PreBlock != "" {
		pre = c31RunAux(plan.PreBlock, fileRef)
	}
	if plan.PostBlock != "" {
		post = c31RunAux(plan.PostBlock, fileRef)
	}
	if plan.StdoutBlock != "" {
		outBlk = c31RunCheckBlock(plan.StdoutBlock, []byte(o.Stdout), o.OutType)
	}
	if plan.StderrBlock != "" {
		errBlk = c31RunCheckBlock(plan.StderrBlock, []byte(o.Stderr), o.ErrType)
	}
	rxOut := c31Regex(plan.StdoutRegex, []byte(o.Stdout))
	rxErr := c31Regex(plan.StderrRegex, []byte(o.Stderr))
	shOut := c31Shape([]byte(o.Stdout), o.OutType)
	shErr := c31Shape([]byte(o.Stderr), o.ErrType)

	// 3. the test framework's verdict
	fnName := name
	if !c.Missing {
		if c.Private {
			lang.PrivateFunctions.Define(name, nil, []rune(c.Body), fileRef)
			fnName = fileRef.Source.Module + "/" + name
		} else {
			lang.MxFunctions.Define(name, nil, []rune(c.Body), fileRef)
		}
	}
	ut := new(lang.UnitTests)
	planCopy := plan
	ut.Add(fnName, &planCopy, fileRef)
	done := make(chan bool, 1)
	go func() { done <- ut.Run(lang.ShellProcess, fnName) }()
	select {
	case o.Passed = <-done:
	case <-time.After(30 * time.Second):
		o.Timeout = true
	}
	o.ExitNum = lang.ShellProcess.ExitNum
	lang.ShellProcess.Tests.Results = new(lang.TestResults)
	if !c.Missing && !c.Private {
		lang.MxFunctions.Undefine(name)
	}

	b := coqlit.Bytes
	planCoq := coqlit.Record(
		"p_exit", coqlit.Z(int64(plan.ExitNum)),
		"p_out_match", b(plan.StdoutMatch), "p_out_regex", b(plan.StdoutRegex), "p_out_type", b(plan.StdoutType), "p_out_block", b(plan.StdoutBlock),
		"p_out_is_array", coqlit.Bool(plan.StdoutIsArray), "p_out_is_map", coqlit.Bool(plan.StdoutIsMap), "p_out_gt", coqlit.Z(int64(plan.StdoutGreaterThan)),
		"p_err_match", b(plan.StderrMatch), "p_err_regex", b(plan.StderrRegex), "p_err_type", b(plan.StderrType), "p_err_block", b(plan.StderrBlock),
		"p_err_is_array", coqlit.Bool(plan.StderrIsArray), "p_err_is_map", coqlit.Bool(plan.StderrIsMap),
		"p_pre", b(plan.PreBlock), "p_post", b(plan.PostBlock))
	actCoq := coqlit.Record(
		"a_fn_ran", coqlit.Bool(o.FnRan), "a_exit", coqlit.Z(int64(o.Exit)),
		"a_stdout", b(o.Stdout), "a_out_type", b(o.OutType), "a_stderr", b(o.Stderr), "a_err_type", b(o.ErrType),
		"a_pre", pre.coq(), "a_post", post.coq(), "a_out_block", outBlk.coq(), "a_err_block", errBlk.coq())
	obsExit := int64(o.ExitNum)
	if o.Timeout {
		obsExit = -99
	}
	coq := coqlit.Record("c_plan", planCoq, "c_actual", actCoq,
		"c_rx_out", rxOut, "c_rx_err", rxErr, "c_sh_out", shOut, "c_sh_err", shErr,
		"c_obs_passed", coqlit.Bool(o.Passed), "c_obs_exit", coqlit.Z(obsExit))

	nontrivial := plan.StdoutMatch != "" || plan.StdoutRegex != "" || plan.StdoutType != "" || plan.StdoutBlock != "" ||
		plan.StdoutIsArray || plan.StdoutIsMap || plan.StdoutGreaterThan > 0 || plan.StderrMatch != "" || plan.StderrRegex != "" ||
		plan.StderrType != "" || plan.StderrBlock != "" || plan.StderrIsArray || plan.StderrIsMap || plan.PreBlock != "" || plan.PostBlock != "" ||
		o.Stderr != ""
	return Result{Obs: o, Coq: coq, Nontrivial: nontrivial, Class: c.Class}
}

// ---- generation ----

type c31Out struct {
	cmd  string // murex statement producing it
	data string // bytes it writes
	typ  string // data type of the stream ("" = unknown to the generator)
	n    int    // length when it is an array / map (for GreaterThan), -1 otherwise
}

var c31Stdouts = []c31Out{
	{"", "", "", -1},
	{"out hello", "hello\n", "str", -1},
	{"out 'hello world'", "hello world\n", "str", -1},
	{"tout str 'a.b*c'", "a.b*c", "str", -1},
	{"tout json '[1,2,3]'", "[1,2,3]", "json", 3},
	{"tout json '[]'", "[]", "json", 0},
	{"tout json '[\"a\",\"b\"]'", "[\"a\",\"b\"]", "json", 2},
	{"tout json '{\"a\":1,\"b\":2}'", "{\"a\":1,\"b\":2}", "json", 2},
	{"tout json '{}'", "{}", "json", 0},
	{"tout json '{\"a\":[1,2],\"b\":{\"c\":3},\"d\":4}'", "{\"a\":[1,2],\"b\":{\"c\":3},\"d\":4}", "json", 3},
	{"tout json '42'", "42", "json", -1},
	{"tout json '\"str\"'", "\"str\"", "json", -1},
	{"tout json '[1,2'", "[1,2", "json", -1},
	{"tout json ''", "", "json", -1},
	{"tout yaml 'a: 1'", "a: 1", "yaml", 1},
	{"tout yaml '[1, 2, 3, 4]'", "[1, 2, 3, 4]", "yaml", 4},
	{"tout jsonl '[1]'", "[1]", "jsonl", 1},
	{"tout csv 'a,b'", "a,b", "csv", -1},
	{"tout int 5", "5", "int", -1},
	{"tout str '[1,2,3]'", "[1,2,3]", "str", -1},
	{"tout * '[1,2,3]'", "[1,2,3]", "*", -1},
	{"tout toml 'a = 1'", "a = 1", "toml", 1},
	{"out a; out b; out c", "a\nb\nc\n", "str", 3},
}

var c31Stderrs = []c31Out{
	{"", "", "", -1}, {"", "", "", -1}, {"", "", "", -1},
	{"err oops", "oops\n", "", -1},
	{"err 'two words'", "two words\n", "", -1},
	{"tout <err> json '[1,2]'", "[1,2]", "json", 2},
	{"tout <err> json '{\"k\":1}'", "{\"k\":1}", "json", 1},
	{"tout <err> str 'warn'", "warn", "str", -1},
}

var c31Exits = []int{0, 0, 0, 1, 2, 3, 7, 255}

var c31AuxBlocks = []string{"out ok", "out ok", "false", "err bad", "out \"unclosed", "tout <err> str x", "return 3", "true"}
var c31CheckBlocks = []string{"out ok", "-> cat", "false", "err bad", "out \"unclosed", "-> set x; out $x", "return 2", "true"}

func c31NonMatching(s string) string {
	if s == "" {
		return "x"
	}
	return s + "x"
}

var c31Types = []string{"str", "json", "yaml", "*", "int", "generic", "jsonl"}

// one assertion slot: mode 0 absent, 1 holds, 2 fails
func c31Plan(r *rand.Rand, so, se c31Out, exit int, modes map[string]int) lang.UnitTestPlan {
	var p lang.UnitTestPlan
	p.ExitNum = exit
	if modes["exit"] == 2 {
		p.ExitNum = exit + 1 + r.Intn(3)
	}
	stream := func(pref string, o c31Out, match, rx, typ *string, isArr, isMap *bool) {
		switch modes[pref+"match"] {
		case 1:
			*match = o.data
		case 2:
			*match = c31NonMatching(o.data)
		}
		switch modes[pref+"regex"] {
		case 1:
			pats := []string{"^", ".*", "(?s)^.*$", "^" + regexp.QuoteMeta(o.data) + "$", regexp.QuoteMeta(o.data)}
			if len(o.data) > 2 {
				pats = append(pats, regexp.QuoteMeta(o.data[1:3]), "^"+regexp.QuoteMeta(o.data[:2]))
			}
			*rx = pats[r.Intn(len(pats))]
		case 2:
			pats := []string{"^zzz$", "(", "[a-", "^" + regexp.QuoteMeta(o.data) + "x$", "\\d{9}"}
			*rx = pats[r.Intn(len(pats))]
		}
		switch modes[pref+"type"] {
		case 1:
			*typ = o.typ // may be "" (= absent) when the generator does not know it
		case 2:
			t := c31Types[r.Intn(len(c31Types))]
			if t == o.typ {
				t = "bool"
			}
			*typ = t
		}
		// IsArray / IsMap: mode 1 and 2 both just switch it on; whether it holds is up to the data
		*isArr = modes[pref+"array"] != 0
		*isMap = modes[pref+"map"] != 0
	}
	stream("out.", so, &p.StdoutMatch, &p.StdoutRegex, &p.StdoutType, &p.StdoutIsArray, &p.StdoutIsMap)
	stream("err.", se, &p.StderrMatch, &p.StderrRegex, &p.StderrType, &p.StderrIsArray, &p.StderrIsMap)
	switch modes["out.gt"] {
	case 1:
		if so.n > 0 {
			p.StdoutGreaterThan = 1 + r.Intn(so.n)
		}
	case 2:
		if so.n >= 0 {
			p.StdoutGreaterThan = so.n + 1 + r.Intn(2)
		} else {
			p.StdoutGreaterThan = 1 + r.Intn(3)
		}
	}
	blk := func(mode int, table []string) string {
		switch mode {
		case 1:
			return table[r.Intn(2)]
		case 2:
			return table[2+r.Intn(len(table)-2)]
		}
		return ""
	}
	p.StdoutBlock = blk(modes["out.block"], c31CheckBlocks)
	p.StderrBlock = blk(modes["err.block"], c31CheckBlocks)
	p.PreBlock = blk(modes["pre"], c31AuxBlocks)
	p.PostBlock = blk(modes["post"], c31AuxBlocks)
	if r.Intn(6) == 0 {
		p.Parameters = []string{"a", "b"}
	}
	return p
}

var c31Slots = []string{"exit", "out.match", "out.regex", "out.type", "out.array", "out.map", "out.gt", "out.block",
	"err.match", "err.regex", "err.type", "err.array", "err.map", "err.block", "pre", "post"}

func c31Body(so, se c31Out, exit int) string {
	parts := []string{}
	if so.cmd != "" {
		parts = append(parts, so.cmd)
	}
	if se.cmd != "" {
		parts = append(parts, se.cmd)
	}
	parts = append(parts, fmt.Sprintf("return %d", exit))
	return strings.Join(parts, "; ")
}

func (c31) Gen(seed int64, tier string, emit func(any)) {
	r := rand.New(rand.NewSource(seed))
	// systematic part: for every stdout shape x every slot: plan with only that slot (holding
	// resp. failing), and plan with everything holding except that slot
	for si, so := range c31Stdouts {
		se := c31Stderrs[si%len(c31Stderrs)]
		exit := c31Exits[si%len(c31Exits)]
		for _, slot := range c31Slots {
			for mode := 1; mode <= 2; mode++ {
				emit(c31Case{Class: fmt.Sprintf("single/%s/%d", slot, mode), Body: c31Body(so, se, exit),
					Plan: c31Plan(r, so, se, exit, map[string]int{slot: mode})})
			}
			m := map[string]int{}
			for _, s := range c31Slots {
				if s != "out.array" && s != "out.map" && s != "err.array" && s != "err.map" {
					m[s] = 1
				}
			}
			m[slot] = 2
			emit(c31Case{Class: "all-but/" + slot, Body: c31Body(so, se, exit), Plan: c31Plan(r, so, se, exit, m)})
		}
	}
	// the function cannot be run
	emit(c31Case{Class: "fn-missing", Missing: true, Plan: lang.UnitTestPlan{}})
	emit(c31Case{Class: "fn-missing", Missing: true, Plan: lang.UnitTestPlan{StderrRegex: ".*", PreBlock: "out x"}})
	emit(c31Case{Class: "fn-compile-err", Body: "out \"unclosed", Plan: lang.UnitTestPlan{ExitNum: 1}})
	emit(c31Case{Class: "fn-compile-err", Body: "out \"unclosed", Plan: lang.UnitTestPlan{ExitNum: 1, StderrRegex: "."}})

	n := 1500
	if tier == "thorough" {
		n = 25000
	}
	for i := 0; i < n; i++ {
		so := c31Stdouts[r.Intn(len(c31Stdouts))]
		se := c31Stderrs[r.Intn(len(c31Stderrs))]
		exit := c31Exits[r.Intn(len(c31Exits))]
		m := map[string]int{}
		for _, s := range c31Slots {
			if r.Intn(2) == 0 {
				m[s] = 1
			}
		}
		class := "random/all-hold"
		switch k := r.Intn(10); {
		case k < 5: // exactly one slot made to fail
			s := c31Slots[r.Intn(len(c31Slots))]
			m[s] = 2
			class = "random/one-fails/" + s
		case k < 7:
			for j := 0; j < 2+r.Intn(3); j++ {
				m[c31Slots[r.Intn(len(c31Slots))]] = 2
			}
			class = "random/several-fail"
		}
		emit(c31Case{Class: class, Body: c31Body(so, se, exit), Private: r.Intn(8) == 0, Plan: c31Plan(r, so, se, exit, m)})
	}
}
