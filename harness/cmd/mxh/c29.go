//go:build prop_c29 || prop_all

package main

// C29 — Shell history survives restarts and crashes.
// A case is a list of sessions over one history file in a fresh temp dir. Each
// session is history.New + complete Writes + optionally one torn Write: the write
// is performed for real and the file is then truncated so that only `keep` bytes
// of what that write appended remain (a crash at that byte).
// Observed: in-memory list (Len/GetLine) after the complete writes of each
// session, the final file bytes, and Len/GetLine of a fresh history.New at the end.

import (
	"encoding/json"
	"fmt"
	"math/rand"
	"os"
	"path/filepath"
	"strings"
	"unicode/utf8"

	"github.com/lmorg/murex/shell/history"

	"verifharness/coqlit"
)

type c29Piece struct {
	N int    `json:"n"`
	S []byte `json:"s"` // base64 in JSON: commands need not be UTF-8
}

type c29Torn struct {
	Cmd []c29Piece `json:"cmd"`
	// Keep >= 0: bytes of the appended data that reach the disk (clamped to len-1).
	// Keep < 0: -Keep bytes are missing from the end of the appended data.
	Keep int `json:"keep"`
}

type c29Session struct {
	Writes [][]c29Piece `json:"writes"`
	Torn   *c29Torn     `json:"torn,omitempty"`
}

type c29Case struct {
	Class    string       `json:"class"`
	Sessions []c29Session `json:"sessions"`
}

type c29Obs struct {
	Mem      [][]string `json:"mem"`  // digests / literals, printable
	FileLen  int        `json:"file_len"`
	Load     []string   `json:"load"`
	Keeps    []int      `json:"keeps,omitempty"`
	BadStamp bool       `json:"bad_stamp,omitempty"`
}

type c29 struct{}

func init() { register("C29", c29{}) }

const c29LitMax = 600

func c29Expand(ps []c29Piece) string {
	var b strings.Builder
	for _, p := range ps {
		for i := 0; i < p.N; i++ {
			b.Write(p.S)
		}
	}
	return b.String()
}

func c29Lit(s string) []c29Piece { return []c29Piece{{1, []byte(s)}} }

func c29Ostr(s string) string {
	if len(s) > c29LitMax {
		// djb2 on 40 bits, as Check.C29.fnv
		h := uint64(5381)
		for i := 0; i < len(s); i++ {
			h = (h*33 + uint64(s[i])) & (1<<40 - 1)
		}
		return fmt.Sprintf("(Dig %d %d)", len(s), h)
	}
	return "(Lit " + coqlit.Bytes(s) + ")"
}

func c29OstrList(ss []string) string {
	e := make([]string, len(ss))
	for i, s := range ss {
		e[i] = c29Ostr(s)
	}
	return coqlit.List(e)
}

func c29Pieces(ps []c29Piece) string {
	e := make([]string, len(ps))
	for i, p := range ps {
		e[i] = fmt.Sprintf("(%d, %s)", p.N, coqlit.Bytes(string(p.S)))
	}
	return coqlit.List(e)
}

func c29Cwr(ts string, ps []c29Piece) string {
	return coqlit.Record("cw_ts", coqlit.Bytes(ts), "cw_cmd", c29Pieces(ps))
}

// c29Stamp extracts the time stamp from the bytes one Write appended.
func c29Stamp(delta []byte) (string, bool) {
	s := string(delta)
	s = strings.TrimPrefix(s, "\n")
	const pre = `{"datetime":"`
	if !strings.HasPrefix(s, pre) {
		return "", false
	}
	s = s[len(pre):]
	i := strings.IndexByte(s, '"')
	if i < 0 {
		return "", false
	}
	return s[:i], true
}

func c29Size(fn string) int64 {
	fi, err := os.Stat(fn)
	if err != nil {
		return 0
	}
	return fi.Size()
}

func c29Tail(fn string, from int64) []byte {
	f, err := os.Open(fn)
	if err != nil {
		return nil
	}
	defer f.Close()
	fi, _ := f.Stat()
	b := make([]byte, fi.Size()-from)
	f.ReadAt(b, from)
	return b
}

func c29List(h *history.History) []string {
	out := make([]string, 0, h.Len())
	for i := 0; i < h.Len(); i++ {
		s, err := h.GetLine(i)
		if err != nil {
			s = "<GetLine error>"
		}
		out = append(out, s)
	}
	return out
}

func (c29) Run(raw json.RawMessage) Result {
	var c c29Case
	if err := json.Unmarshal(raw, &c); err != nil {
		die("C29: bad case: %v", err)
	}
	initMurex()
	dir, err := os.MkdirTemp("", "c29-")
	if err != nil {
		die("C29: %v", err)
	}
	defer os.RemoveAll(dir)
	fn := filepath.Join(dir, "murex_history")

	var o c29Obs
	var mems [][]string
	sessCoq := []string{}
	nontrivial := len(c.Sessions) > 1
	for _, s := range c.Sessions {
		h, _ := history.New(fn)
		ws := []string{}
		for _, w := range s.Writes {
			cmd := c29Expand(w)
			if c29Interesting(cmd) {
				nontrivial = true
			}
			before := c29Size(fn)
			h.Write(cmd)
			ts, ok := c29Stamp(c29Tail(fn, before))
			if !ok {
				o.BadStamp = true
			}
			ws = append(ws, c29Cwr(ts, w))
		}
		mems = append(mems, c29List(h))
		torn := "None"
		if s.Torn != nil {
			nontrivial = true
			cmd := c29Expand(s.Torn.Cmd)
			before := c29Size(fn)
			h.Write(cmd)
			delta := c29Tail(fn, before)
			ts, ok := c29Stamp(delta)
			if !ok {
				o.BadStamp = true
			}
			keep := s.Torn.Keep
			if keep < 0 {
				keep = len(delta) + keep
			}
			if keep < 0 {
				keep = 0
			}
			if keep > len(delta)-1 {
				keep = len(delta) - 1
			}
			if keep < 0 { // nothing was appended at all
				keep = 0
			}
			os.Truncate(fn, before+int64(keep))
			o.Keeps = append(o.Keeps, keep)
			torn = fmt.Sprintf("(Some (%s, %d))", c29Cwr(ts, s.Torn.Cmd), keep)
		}
		sessCoq = append(sessCoq, coqlit.Record("cs_writes", coqlit.List(ws), "cs_torn", torn))
	}
	file, _ := os.ReadFile(fn)
	h, _ := history.New(fn)
	load := c29List(h)

	o.FileLen = len(file)
	for _, m := range mems {
		o.Mem = append(o.Mem, c29Short(m))
	}
	o.Load = c29Short(load)

	memCoq := make([]string, len(mems))
	for i, m := range mems {
		memCoq[i] = c29OstrList(m)
	}
	coq := coqlit.Record(
		"c_sessions", coqlit.List(sessCoq),
		"c_obs_mem", coqlit.List(memCoq),
		"c_obs_file", c29Ostr(string(file)),
		"c_obs_load", c29OstrList(load))
	return Result{Obs: o, Coq: coq, Nontrivial: nontrivial, Class: c.Class}
}

func c29Short(ss []string) []string {
	out := make([]string, len(ss))
	for i, s := range ss {
		if len(s) > 40 {
			out[i] = fmt.Sprintf("<%d bytes>", len(s))
		} else {
			out[i] = fmt.Sprintf("%q", s)
		}
	}
	return out
}

// a command that exercises escaping, trimming, UTF-8 coercion or the old scanner limit
func c29Interesting(s string) bool {
	if len(s) > 60000 || !utf8.ValidString(s) || strings.TrimSpace(s) != s {
		return true
	}
	for i := 0; i < len(s); i++ {
		b := s[i]
		if b < 0x20 || b >= 0x7f || b == '"' || b == '\\' || b == '<' || b == '>' || b == '&' {
			return true
		}
	}
	return false
}

// ---- generation ----

var c29Atoms = []string{
	"out", "echo", "ls", " ", " ", "  ", "|", "{", "}", ";", "->", "$var", "'q'", "\"dq\"", "\"", "\\", "\\\\", "\\n", "\\u0041", "\\ud83d\\ude00",
	"\n", "\t", "\r", "\r\n", "\x00", "\x01", "\x08", "\x0b", "\x0c", "\x1f", "\x7f", "<", ">", "&", "/", "</script>",
	"\u00e9", "\u00fc", "\u00df", "\u65e5\u672c\u8a9e", "\U0001f600", "\U0010ffff", "\u2028", "\u2029", "\u0085", "\u00a0", "\u3000", "\u1680", "\u2000", "\u200a", "\u200b", "\u202f", "\u205f", "\ufffd", "\ufeff", "\u07ff", "\u0800", "\ud7ff", "\ue000", "\uffff", "\U00010000",
	"\xff", "\xc3", "\xe2\x80", "\xe2", "\xed\xa0\x80", "\xc0\xaf", "\xf4\x90\x80\x80", "\xf0\x9f", "\x80", "\xbf", "\xe0\x9f\xbf", "\xf0\x8f\xbf\xbf", "\xc2", "\xc2\x85", "\xe2\x80\xa8",
	"}", "\"}", "\"}\n", "{\"datetime\":\"x\",\"block\":\"fake\"}",
}

var c29Spaces = []string{" ", "\t", "\n", "\r", "\v", "\f", "\u0085", "\u00a0", "\u3000", "\u1680", "\u2000", "\u2005", "\u200a", "\u2028", "\u2029", "\u202f", "\u205f"}

func c29RandCmd(r *rand.Rand) string {
	switch r.Intn(20) {
	case 0:
		return ""
	case 1:
		return c29Spaces[r.Intn(len(c29Spaces))] + c29Spaces[r.Intn(len(c29Spaces))]
	}
	var b strings.Builder
	if r.Intn(4) == 0 {
		for i := r.Intn(3); i >= 0; i-- {
			b.WriteString(c29Spaces[r.Intn(len(c29Spaces))])
		}
	}
	n := 1 + r.Intn(8)
	for i := 0; i < n; i++ {
		if r.Intn(3) == 0 {
			b.WriteString(c29Atoms[r.Intn(len(c29Atoms))])
		} else {
			b.WriteString(c29Atoms[r.Intn(12)])
		}
	}
	if r.Intn(4) == 0 {
		for i := r.Intn(3); i >= 0; i-- {
			b.WriteString(c29Spaces[r.Intn(len(c29Spaces))])
		}
	}
	return b.String()
}

func c29RandWrites(r *rand.Rand, max int) [][]c29Piece {
	n := r.Intn(max + 1)
	out := [][]c29Piece{}
	prev := ""
	for i := 0; i < n; i++ {
		cmd := c29RandCmd(r)
		if i > 0 && r.Intn(5) == 0 {
			cmd = prev // consecutive duplicate
			if r.Intn(2) == 0 {
				cmd = " " + cmd + "\n" // duplicate only after trimming
			}
		}
		prev = cmd
		out = append(out, c29Lit(cmd))
	}
	return out
}

// a command of exactly n bytes made of few pieces
func c29Big(n int, unit string, head string) []c29Piece {
	ps := []c29Piece{}
	if head != "" {
		ps = append(ps, c29Piece{1, []byte(head)})
		n -= len(head)
	}
	k := n / len(unit)
	if k > 0 {
		ps = append(ps, c29Piece{k, []byte(unit)})
	}
	if rest := n - k*len(unit); rest > 0 {
		ps = append(ps, c29Piece{1, []byte(unit[:rest])})
	}
	return ps
}

func (c29) Gen(seed int64, tier string, emit func(any)) {
	thorough := tier == "thorough"
	lit := func(ss ...string) [][]c29Piece {
		out := [][]c29Piece{}
		for _, s := range ss {
			out = append(out, c29Lit(s))
		}
		return out
	}
	// (the design-phase witnesses are in corpus/C29/witnesses.case)

	// torn write at EVERY byte offset of the last write, then one or two more sessions
	bases := []struct {
		pre  []string
		last string
		post [][]string
	}{
		{[]string{"out hello"}, "echo world", [][]string{{"ls"}}},
		{nil, "first ever", [][]string{{"next", "next2"}}},
		{[]string{"a", "b"}, "say \"q\" \\ <&>\n2nd line\t é😀\xff", [][]string{{"c"}, {"d"}}},
		{[]string{"same"}, "same", [][]string{{"same"}}},
		{[]string{"x"}, "  ", [][]string{{"y"}}},
		{[]string{"x"}, "y}", [][]string{{"\"}"}, {"z"}}},
	}
	if thorough {
		bases = append(bases, struct {
			pre  []string
			last string
			post [][]string
		}{[]string{"p", "q", "r"}, strings.Repeat("long command | with pipes ; ", 8) + "\x01\x02é", [][]string{{"s"}, {}, {"t"}}})
	}
	for _, b := range bases {
		maxKeep := 13 + 40 + 11 + 6*len(b.last) + 4
		for keep := 0; keep <= maxKeep; keep++ {
			ss := []c29Session{{Writes: lit(b.pre...), Torn: &c29Torn{c29Lit(b.last), keep}}}
			for _, p := range b.post {
				ss = append(ss, c29Session{Writes: lit(p...)})
			}
			emit(c29Case{"torn-every", ss})
		}
		for back := 1; back <= 12; back++ {
			ss := []c29Session{{Writes: lit(b.pre...), Torn: &c29Torn{c29Lit(b.last), -back}}}
			for _, p := range b.post {
				ss = append(ss, c29Session{Writes: lit(p...)})
			}
			emit(c29Case{"torn-every", ss})
		}
	}
	// two torn writes in a row (the second session dies too), and a torn write onto a torn tail
	for k1 := 0; k1 < 70; k1 += 7 {
		for k2 := -1; k2 > -60; k2 -= 9 {
			emit(c29Case{"torn-twice", []c29Session{
				{Writes: lit("one"), Torn: &c29Torn{c29Lit("two"), k1}},
				{Torn: &c29Torn{c29Lit("three"), k2}},
				{Writes: lit("four")}}})
		}
	}

	// long entries around the old 64 KiB scanner limit and up to 200 KiB (costly to
	// evaluate in Coq: spread over the shards, see below)
	bigs := []c29Case{}
	sizes := []int{65536 - 62, 65536 - 52, 65536 - 45, 70000, 200 * 1024}
	if thorough {
		for d := -75; d <= -40; d += 2 {
			sizes = append(sizes, 65536+d)
		}
		sizes = append(sizes, 65536, 65537, 131072, 100000, 150000)
	}
	for i, n := range sizes {
		unit := "0123456789"
		if i%3 == 1 {
			unit = "\u00e9\"\n<" // escapes make the line longer than the command
		}
		ss := []c29Session{{Writes: [][]c29Piece{c29Lit("before"), c29Big(n, unit, "out "), c29Lit("after")}}, {Writes: lit("later")}}
		bigs = append(bigs, c29Case{"big", ss})
	}
	bigs = append(bigs, c29Case{"big-torn", []c29Session{
		{Writes: lit("before"), Torn: &c29Torn{c29Big(70000, "ab", "out "), 66000}},
		{Writes: lit("after")}}})
	bigs = append(bigs, c29Case{"big-torn", []c29Session{
		{Writes: lit("before"), Torn: &c29Torn{c29Big(70000, "ab", "out "), -1}},
		{Writes: lit("after")}}})

	// random histories
	r := rand.New(rand.NewSource(seed))
	n := 700
	if thorough {
		n = 12000
	}
	every := n / (len(bigs) + 1)
	for i := 0; i < n; i++ {
		if i%every == 0 && len(bigs) > 0 {
			emit(bigs[0])
			bigs = bigs[1:]
		}
		ns := 1 + r.Intn(3)
		ss := []c29Session{}
		class := "random"
		for j := 0; j < ns; j++ {
			s := c29Session{Writes: c29RandWrites(r, 20/ns)}
			if r.Intn(3) == 0 {
				keep := r.Intn(120)
				if r.Intn(2) == 0 {
					keep = -1 - r.Intn(30)
				}
				s.Torn = &c29Torn{c29Lit(c29RandCmd(r)), keep}
				class = "random-torn"
			}
			ss = append(ss, s)
		}
		emit(c29Case{class, ss})
	}
}

// Shrink: drop one session, one write, or the torn write.
func (c29) Shrink(raw json.RawMessage) []any {
	var c c29Case
	if json.Unmarshal(raw, &c) != nil {
		return nil
	}
	out := []any{}
	clone := func() c29Case {
		var d c29Case
		b, _ := json.Marshal(c)
		json.Unmarshal(b, &d)
		return d
	}
	for i := range c.Sessions {
		if len(c.Sessions) > 1 {
			d := clone()
			d.Sessions = append(d.Sessions[:i], d.Sessions[i+1:]...)
			out = append(out, d)
		}
		for j := range c.Sessions[i].Writes {
			d := clone()
			d.Sessions[i].Writes = append(d.Sessions[i].Writes[:j], d.Sessions[i].Writes[j+1:]...)
			out = append(out, d)
		}
		if c.Sessions[i].Torn != nil && len(c.Sessions) > 1 {
			d := clone()
			d.Sessions[i].Torn = nil
			out = append(out, d)
		}
	}
	return out
}
