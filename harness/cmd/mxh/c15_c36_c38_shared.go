//go:build prop_c15 || prop_c36 || prop_c38 || prop_all

package main

// Helpers shared by C15 (array codecs), C36 (literals) and C38 (list builtins):
// running one builtin directly on a prepared lang.Process (the way
// test.RunMethodRegexTest of the repo does) and small generator utilities.

import (
	"encoding/json"
	"fmt"
	"math/rand"
	"strings"
	"time"

	"github.com/lmorg/murex/builtins/pipes/streams"
	"github.com/lmorg/murex/lang"
)

// arrCallResult is the projected observation of one direct builtin call.
type arrCallResult struct {
	Stdout  []byte
	Err     bool // the builtin returned an error
	Panic   bool
	Timeout bool
	Msg     string // diagnostic only, never compared
}

// arrCallBuiltin runs lang.GoFunctions[name] as a method with the given stdin
// (data type dt) and parameters. isNot selects the `!name` form.
func arrCallBuiltin(name string, isNot bool, dt string, stdin []byte, params []string, timeout time.Duration) arrCallResult {
	return arrCallBuiltinCfg(name, isNot, dt, stdin, params, timeout, nil)
}

// arrCallBuiltinCfg: as arrCallBuiltin; setup may adjust the process (its config) before the call.
func arrCallBuiltinCfg(name string, isNot bool, dt string, stdin []byte, params []string, timeout time.Duration, setup func(*lang.Process)) arrCallResult {
	initMurex()
	fn := lang.GoFunctions[name]
	if fn == nil {
		die("builtin %q is not registered", name)
	}
	p := lang.NewTestProcess()
	defer func() {
		p.Done()
		lang.GlobalFIDs.Deregister(p.Id)
	}()
	p.IsMethod = true
	p.IsNot = isNot
	if isNot {
		p.Name.Set("!" + name)
	} else {
		p.Name.Set(name)
	}
	p.Parameters.DefineParsed(append([]string(nil), params...))
	in := streams.NewStdin()
	in.SetDataType(dt)
	in.Write(stdin)
	p.Stdin = in
	out := streams.NewStdin()
	p.Stdout = out
	p.Stderr = streams.NewStdin()
	if setup != nil {
		setup(p)
	}

	var r arrCallResult
	done := make(chan struct{})
	go func() {
		defer close(done)
		defer func() {
			if x := recover(); x != nil {
				r.Panic = true
				r.Msg = fmt.Sprint(x)
			}
		}()
		if err := fn(p); err != nil {
			r.Err = true
			r.Msg = err.Error()
		}
	}()
	select {
	case <-done:
	case <-time.After(timeout):
		return arrCallResult{Timeout: true}
	}
	b, err := out.ReadAll()
	if err == nil {
		r.Stdout = b
	}
	return r
}

// arrPick returns a random string of n pieces drawn from alphabet.
func arrPick(rng *rand.Rand, alphabet []string, n int) string {
	s := ""
	for i := 0; i < n; i++ {
		s += alphabet[rng.Intn(len(alphabet))]
	}
	return s
}

// bstr is a byte string that travels through the case / observation JSON as
// pure printable ASCII: bytes outside 0x20..0x7e and '%' are written %XX.  (Case
// lines pass through text pipes that split on Unicode line boundaries and
// replace invalid UTF-8; arbitrary bytes must survive that.)
type bstr string

func (b bstr) MarshalJSON() ([]byte, error) {
	var sb strings.Builder
	for i := 0; i < len(b); i++ {
		c := b[i]
		if c >= 0x20 && c <= 0x7e && c != '%' {
			sb.WriteByte(c)
		} else {
			fmt.Fprintf(&sb, "%%%02X", c)
		}
	}
	return json.Marshal(sb.String())
}

func (b *bstr) UnmarshalJSON(data []byte) error {
	var s string
	if err := json.Unmarshal(data, &s); err != nil {
		return err
	}
	var sb strings.Builder
	for i := 0; i < len(s); i++ {
		if s[i] == '%' && i+2 < len(s) {
			var v int
			if _, err := fmt.Sscanf(s[i+1:i+3], "%02X", &v); err == nil {
				sb.WriteByte(byte(v))
				i += 2
				continue
			}
		}
		sb.WriteByte(s[i])
	}
	*b = bstr(sb.String())
	return nil
}

func bstrs(xs []string) []bstr {
	out := make([]bstr, len(xs))
	for i, x := range xs {
		out[i] = bstr(x)
	}
	return out
}

func unbstrs(xs []bstr) []string {
	out := make([]string, len(xs))
	for i, x := range xs {
		out[i] = string(x)
	}
	return out
}
