//go:build prop_c12 || prop_all

package main

// C12 — Structured variables are values, and nested assignment is precise.
//
// Two kinds of case:
//   alter: one direct call alter.Alter(ctx, doc, path, new) on a JSON document
//   hist : a history of copy / nested-set / function-call / read commands run
//          through murex in one variable scope; after every command every
//          variable is observed twice (stored Go value and string form).

import (
	"context"
	"encoding/json"
	"fmt"
	"math/rand"
	"sort"
	"strconv"
	"strings"
	"time"

	"github.com/lmorg/murex/lang"
	"github.com/lmorg/murex/lang/ref"
	"github.com/lmorg/murex/lang/types"
	"github.com/lmorg/murex/utils/alter"

	"verifharness/coqlit"
)

type c12Op struct {
	Op   string   `json:"op"` // copy|set|call|read
	Dst  string   `json:"dst,omitempty"`
	Src  string   `json:"src,omitempty"`
	X    string   `json:"x,omitempty"`
	Path []string `json:"path,omitempty"`
	New  any      `json:"new,omitempty"`
}

type c12Init struct {
	Name string `json:"name"`
	Doc  any    `json:"doc"`
}

type c12Case struct {
	Kind string    `json:"kind"` // alter|hist
	Doc  any       `json:"doc,omitempty"`
	Path []string  `json:"path,omitempty"`
	New  any       `json:"new,omitempty"`
	Init []c12Init `json:"init,omitempty"`
	Ops  []c12Op   `json:"ops,omitempty"`
}

type c12 struct{}

func init() { register("C12", c12{}) }

func c12Path(p []string) string { return coqlit.BytesList(p) }

func c12Conv(v any, dt string) string {
	r, err := types.ConvertGoType(v, dt)
	if err != nil {
		return "(Err 1)"
	}
	return coqlit.App("Ok", c12Coq(r))
}

func c12NewVal(v any) string {
	return coqlit.Record("nv", c12Coq(v),
		"nv_str", c12Conv(v, types.String),
		"nv_num", c12Conv(v, types.Float),
		"nv_bool", c12Conv(v, types.Boolean))
}

func c12Clone(v any) any {
	b, _ := json.Marshal(v)
	var out any
	_ = json.Unmarshal(b, &out)
	return out
}

// ---------- run: alter ----------

type c12AObs struct {
	Kind int    `json:"kind"` // 0 value, 1 error, 2 panic
	Res  string `json:"res,omitempty"`
	Err  string `json:"err,omitempty"`
}

func c12RunAlter(c c12Case) Result {
	doc := c12Clone(c.Doc)
	nw := c12Clone(c.New)
	var o c12AObs
	var res any
	func() {
		defer func() {
			if r := recover(); r != nil {
				o.Kind = 2
				o.Err = fmt.Sprint(r)
			}
		}()
		v, err := alter.Alter(context.Background(), doc, c.Path, nw)
		if err != nil {
			o.Kind = 1
			o.Err = err.Error()
			return
		}
		res = v
	}()
	if o.Kind == 0 {
		b, _ := json.Marshal(res)
		o.Res = string(b)
	}
	obs := coqlit.Record("a_kind", coqlit.N(uint64(o.Kind)), "a_res", c12Coq(res))
	coq := "(CAlter " + c12Coq(c12Clone(c.Doc)) + " " + c12Path(c.Path) + " " + c12NewVal(c12Clone(c.New)) + " " + obs + ")"
	cls := "alter/" + []string{"ok", "err", "panic"}[o.Kind] + "/len" + strconv.Itoa(len(c.Path))
	return Result{Obs: o, Coq: coq, Nontrivial: o.Kind == 0 && len(c.Path) >= 1, Class: cls}
}

// ---------- run: history ----------

type c12SObs struct {
	Ok   bool              `json:"ok"`
	Vals map[string]string `json:"vals"`
	Strs map[string]string `json:"strs"`
	Text string            `json:"text,omitempty"`
}

var c12Counter int

func c12Lit(v any) string {
	switch t := v.(type) {
	case string:
		return "'" + t + "'"
	case float64:
		return c12Num(t)
	case bool:
		if t {
			return "true"
		}
		return "false"
	}
	return "null"
}

// c12Exec runs one block in a child fork that shares base's variable table.
func c12Exec(base *lang.Fork, block string) (ok bool, stdout string) {
	f := base.Process.Fork(lang.F_NO_STDIN | lang.F_CREATE_STDOUT | lang.F_CREATE_STDERR)
	type ret struct {
		n   int
		err error
	}
	done := make(chan ret, 1)
	go func() {
		n, err := f.Execute([]rune(block))
		done <- ret{n, err}
	}()
	select {
	case r := <-done:
		ok = r.n == 0 && r.err == nil
	case <-time.After(20 * time.Second):
		return false, "\x00timeout"
	}
	b, _ := f.Stdout.ReadAll()
	return ok, string(b)
}

func c12Snapshot(base *lang.Fork, names []string, o *c12SObs) (vals, strs string) {
	o.Vals = map[string]string{}
	o.Strs = map[string]string{}
	ve := make([]string, len(names))
	se := make([]string, len(names))
	for i, n := range names {
		v, err := base.Variables.GetValue(n)
		if err != nil {
			ve[i] = "(" + coqlit.Bytes(n) + ", None)"
			o.Vals[n] = "!" + err.Error()
		} else {
			ve[i] = "(" + coqlit.Bytes(n) + ", Some " + c12Coq(v) + ")"
			b, _ := json.Marshal(v)
			o.Vals[n] = string(b)
		}
		s, err := base.Variables.GetString(n)
		var sv any
		if err != nil || json.Unmarshal([]byte(s), &sv) != nil {
			se[i] = "(" + coqlit.Bytes(n) + ", None)"
			o.Strs[n] = "!" + s
		} else {
			se[i] = "(" + coqlit.Bytes(n) + ", Some " + c12Coq(sv) + ")"
			b, _ := json.Marshal(sv)
			o.Strs[n] = string(b)
		}
	}
	return coqlit.List(ve), coqlit.List(se)
}

func c12SObsCoq(base *lang.Fork, names []string, ok bool, text string) (c12SObs, string) {
	o := c12SObs{Ok: ok, Text: text}
	vals, strs := c12Snapshot(base, names, &o)
	var dv any
	doc := "None"
	if json.Unmarshal([]byte(text), &dv) == nil {
		doc = "(Some " + c12Coq(dv) + ")"
	}
	return o, coqlit.Record("s_ok", coqlit.Bool(ok), "s_vals", vals, "s_strs", strs,
		"s_text", coqlit.Bytes(text), "s_doc", doc)
}

func c12RunHist(c c12Case) Result {
	initMurex()
	c12Counter++
	base := lang.ShellProcess.Fork(lang.F_FUNCTION | lang.F_NEW_MODULE | lang.F_NO_STDIN | lang.F_CREATE_STDOUT | lang.F_CREATE_STDERR)
	base.Name.Set("verif")
	base.FileRef = &ref.File{Source: &ref.Source{Module: fmt.Sprintf("murex/verif-c12-%d", c12Counter)}}
	defer base.Process.Done()

	names := []string{}
	addName := func(n string) {
		for _, m := range names {
			if m == n {
				return
			}
		}
		names = append(names, n)
	}
	initOk := true
	initCoq := make([]string, len(c.Init))
	for i, in := range c.Init {
		b, _ := json.Marshal(in.Doc)
		if err := base.Variables.Set(base.Process, in.Name, string(b), types.Json); err != nil {
			initOk = false
		}
		addName(in.Name)
		initCoq[i] = "(" + coqlit.Bytes(in.Name) + ", " + c12Coq(c12Clone(in.Doc)) + ")"
	}
	obs := []c12SObs{}
	o0, o0coq := c12SObsCoq(base, names, initOk, "")
	obs = append(obs, o0)

	opsCoq := make([]string, len(c.Ops))
	obsCoq := make([]string, len(c.Ops))
	copies, sets := 0, 0
	for i, op := range c.Ops {
		var block string
		switch op.Op {
		case "copy":
			block = op.Dst + " = $" + op.Src
			opsCoq[i] = coqlit.App("OCopy", coqlit.Bytes(op.Dst), coqlit.Bytes(op.Src))
			copies++
		case "set":
			block = "$" + op.X + "." + strings.Join(op.Path, ".") + " = " + c12Lit(op.New)
			opsCoq[i] = coqlit.App("OSet", coqlit.Bytes(op.X), c12Path(op.Path), c12NewVal(c12Clone(op.New)))
			sets++
		case "call":
			fn := fmt.Sprintf("c12f%d", i)
			block = "function " + fn + " { try { tout json $1 -> set c12x; $c12x." + strings.Join(op.Path, ".") +
				" = " + c12Lit(op.New) + "; out $c12x } }; " + fn + " $" + op.Src
			opsCoq[i] = coqlit.App("OCall", coqlit.Bytes(op.Src), c12Path(op.Path), c12NewVal(c12Clone(op.New)))
		case "read":
			block = "out $" + op.X + "." + strings.Join(op.Path, ".")
			opsCoq[i] = coqlit.App("ORead", coqlit.Bytes(op.X), c12Path(op.Path))
		default:
			die("C12: bad op %q", op.Op)
		}
		ok, text := c12Exec(base, block)
		text = strings.TrimSuffix(text, "\n")
		if !ok {
			text = ""
		}
		if op.Op == "copy" && ok {
			addName(op.Dst)
		}
		var o c12SObs
		o, obsCoq[i] = c12SObsCoq(base, names, ok, text)
		obs = append(obs, o)
	}
	coq := "(CHist " + coqlit.List(initCoq) + " " + coqlit.List(opsCoq) + " " + o0coq + " " + coqlit.List(obsCoq) + ")"
	return Result{Obs: obs, Coq: coq, Nontrivial: copies > 0 && sets > 0,
		Class: fmt.Sprintf("hist/ops%d", len(c.Ops))}
}

func (c12) Run(raw json.RawMessage) Result {
	var c c12Case
	if err := json.Unmarshal(raw, &c); err != nil {
		die("C12: bad case: %v", err)
	}
	switch c.Kind {
	case "alter":
		return c12RunAlter(c)
	case "hist":
		return c12RunHist(c)
	}
	die("C12: bad kind %q", c.Kind)
	return Result{}
}

// ---------- generators ----------

var c12Keys = []string{"a", "b", "c", "A", "Ab", "k1", "0", "1", "x_y"}
var c12Strs = []string{"", "s", "hello", "7", " 8 ", "1.5", "true", "false", "no", "zz", "#x", "{}", "a.b", "null", "0", "-3", "1e3", "x y"}
var c12Nums = []float64{0, 1, 2, 3, -3, 1.5, 7, 10, 1000, 0.25, 123456789}

func c12Scalar(r *rand.Rand) any {
	switch r.Intn(10) {
	case 0:
		return nil
	case 1, 2:
		return r.Intn(2) == 0
	case 3, 4, 5:
		return c12Nums[r.Intn(len(c12Nums))]
	default:
		return c12Strs[r.Intn(len(c12Strs))]
	}
}

func c12Doc(r *rand.Rand, depth int) any {
	if depth <= 0 || r.Intn(10) < 3 {
		return c12Scalar(r)
	}
	n := r.Intn(4)
	if r.Intn(2) == 0 {
		a := make([]any, n)
		for i := range a {
			a[i] = c12Doc(r, depth-1)
		}
		return a
	}
	m := map[string]any{}
	for i := 0; i < n; i++ {
		m[c12Keys[r.Intn(len(c12Keys))]] = c12Doc(r, depth-1)
	}
	return m
}

func c12Container(r *rand.Rand, depth int) any {
	for {
		d := c12Doc(r, depth)
		switch d.(type) {
		case []any, map[string]any:
			return d
		}
	}
}

// c12WalkPath returns a path into d: existing (mostly), possibly continued past
// a leaf or a missing element; murexSyntax restricts elements to [A-Za-z0-9_]+.
func c12WalkPath(r *rand.Rand, d any, murexSyntax bool) []string {
	p := []string{}
	cur := d
	for len(p) < 6 {
		switch t := cur.(type) {
		case []any:
			var k string
			switch x := r.Intn(12); {
			case x < 8 && len(t) > 0:
				i := r.Intn(len(t))
				k = strconv.Itoa(i)
				if !murexSyntax {
					switch r.Intn(8) {
					case 0:
						k = "0" + k
					case 1:
						k = "+" + k
					case 2:
						if i == 0 {
							k = "-0"
						}
					}
				} else if r.Intn(8) == 0 {
					k = "0" + k
				}
				cur = t[i]
			case x < 9:
				k = strconv.Itoa(len(t))
				cur = nil
			case x < 10:
				k = c12Keys[r.Intn(len(c12Keys))]
				cur = nil
			default:
				if murexSyntax {
					k = "99999999999999999999"
				} else {
					k = []string{"-1", "", "1x", "99999999999999999999", " 1", "1_0"}[r.Intn(6)]
				}
				cur = nil
			}
			p = append(p, k)
		case map[string]any:
			keys := make([]string, 0, len(t))
			for k := range t {
				keys = append(keys, k)
			}
			sort.Strings(keys)
			var k string
			if len(keys) > 0 && r.Intn(10) < 7 {
				k = keys[r.Intn(len(keys))]
			} else {
				k = c12Keys[r.Intn(len(c12Keys))]
				if !murexSyntax && r.Intn(10) == 0 {
					k = []string{"", "a b", "é", "a.b"}[r.Intn(4)]
				}
			}
			cur = t[k]
			p = append(p, k)
		default:
			// a scalar, null or missing element: stop here, or go on for a step or two
			if len(p) > 0 && r.Intn(10) < 7 {
				return p
			}
			p = append(p, c12Keys[r.Intn(len(c12Keys))])
			cur = nil
		}
		if len(p) >= 1 && r.Intn(10) < 2 {
			return p
		}
	}
	return p
}

func c12MurexStr(r *rand.Rand) string {
	return []string{"", "s", "hello", "7", " 8 ", "1.5", "true", "no", "zz", "#x", "{}", "a.b", "x y", "\"q\"", "$a"}[r.Intn(15)]
}

func c12MurexScalar(r *rand.Rand) any {
	switch r.Intn(8) {
	case 0, 1:
		return r.Intn(2) == 0
	case 2, 3, 4:
		return c12Nums[r.Intn(len(c12Nums))]
	default:
		return c12MurexStr(r)
	}
}

func c12GenHist(r *rand.Rand, nops int) c12Case {
	names := []string{"va", "vb", "vc"}
	c := c12Case{Kind: "hist"}
	docs := map[string]any{}
	ninit := 1 + r.Intn(2)
	for i := 0; i < ninit; i++ {
		d := c12Container(r, 3)
		c.Init = append(c.Init, c12Init{names[i], d})
		docs[names[i]] = d
	}
	defined := names[:ninit]
	for len(c.Ops) < nops {
		src := defined[r.Intn(len(defined))]
		switch x := r.Intn(10); {
		case x < 2:
			dst := names[r.Intn(len(names))]
			c.Ops = append(c.Ops, c12Op{Op: "copy", Dst: dst, Src: src})
			docs[dst] = docs[src]
			found := false
			for _, n := range defined {
				found = found || n == dst
			}
			if !found {
				defined = append(defined, dst)
			}
		case x < 7:
			// paths are drawn from the initial shape of the document (later
			// shapes may differ: then the path is new or fails, which is wanted too)
			p := c12WalkPath(r, docs[src], true)
			c.Ops = append(c.Ops, c12Op{Op: "set", X: src, Path: p, New: c12MurexScalar(r)})
			if r.Intn(2) == 0 {
				c.Ops = append(c.Ops, c12Op{Op: "read", X: src, Path: p})
			}
		case x < 8:
			p := c12WalkPath(r, docs[src], true)
			c.Ops = append(c.Ops, c12Op{Op: "call", Src: src, Path: p, New: c12MurexScalar(r)})
		default:
			p := c12WalkPath(r, docs[src], true)
			c.Ops = append(c.Ops, c12Op{Op: "read", X: src, Path: p})
		}
	}
	return c
}

func c12J(s string) any {
	var v any
	if err := json.Unmarshal([]byte(s), &v); err != nil {
		panic(err)
	}
	return v
}

func (c12) Gen(seed int64, tier string, emit func(any)) {
	// design-phase witnesses (also in corpus/C12)
	emit(c12Case{Kind: "alter", Doc: c12J(`{"a":[1,2,3]}`), Path: []string{"a", "1"}, New: "hello"})
	emit(c12Case{Kind: "alter", Doc: c12J(`{"a":{"q":1}}`), Path: []string{"a", "b", "c"}, New: "x"})
	emit(c12Case{Kind: "alter", Doc: c12J(`{"a":1}`), Path: []string{"b", "c"}, New: 5.0})
	emit(c12Case{Kind: "alter", Doc: c12J(`{"a":[null,2]}`), Path: []string{"a", "0", "x"}, New: true})
	emit(c12Case{Kind: "hist", Init: []c12Init{{"va", c12J(`{"a":[1,2,3]}`)}},
		Ops: []c12Op{{Op: "set", X: "va", Path: []string{"a", "1"}, New: "hello"}, {Op: "read", X: "va", Path: []string{"a", "0"}}}})
	emit(c12Case{Kind: "hist", Init: []c12Init{{"va", c12J(`{"a":{"q":1}}`)}},
		Ops: []c12Op{{Op: "set", X: "va", Path: []string{"a", "b", "c"}, New: "x"}, {Op: "read", X: "va", Path: []string{"a", "b", "c"}}}})
	emit(c12Case{Kind: "hist", Init: []c12Init{{"va", c12J(`{"x":{"y":1}}`)}},
		Ops: []c12Op{{Op: "copy", Dst: "vb", Src: "va"}, {Op: "set", X: "vb", Path: []string{"x", "y"}, New: 2.0},
			{Op: "set", X: "va", Path: []string{"x", "z"}, New: 3.0}, {Op: "read", X: "va", Path: []string{"x", "z"}},
			{Op: "call", Src: "va", Path: []string{"x", "y"}, New: "9"}}})

	// exhaustive part: a few small documents x every path of length <= 3 over a
	// small element alphabet x one new value of every type
	docs := []string{`{"a":{"b":1},"c":[true,"s",null]}`, `[{"a":"s"},[1,2],null]`, `{"a":null,"b":{"a":{}}}`}
	elems := []string{"a", "b", "c", "0", "1", "2", "01", "x"}
	news := []any{"hello", "7", true, c12J(`{"n":[1]}`)}
	for _, d := range docs {
		var paths [][]string
		paths = append(paths, []string{})
		for _, e1 := range elems {
			paths = append(paths, []string{e1})
			for _, e2 := range elems {
				paths = append(paths, []string{e1, e2})
				for _, e3 := range []string{"a", "0"} {
					paths = append(paths, []string{e1, e2, e3})
				}
			}
		}
		for _, p := range paths {
			for _, n := range news {
				emit(c12Case{Kind: "alter", Doc: c12J(d), Path: p, New: n})
			}
		}
	}

	r := rand.New(rand.NewSource(seed))
	nAlter, nHist := 1000, 200
	if tier == "thorough" {
		nAlter, nHist = 20000, 3000
	}
	for i := 0; i < nAlter; i++ {
		d := c12Doc(r, 1+r.Intn(4))
		if r.Intn(10) < 8 {
			d = c12Container(r, 1+r.Intn(4))
		}
		var nw any
		if r.Intn(6) == 0 {
			nw = c12Doc(r, 2)
		} else {
			nw = c12Scalar(r)
		}
		emit(c12Case{Kind: "alter", Doc: d, Path: c12WalkPath(r, d, false), New: nw})
	}
	for i := 0; i < nHist; i++ {
		emit(c12GenHist(r, 3+r.Intn(6)))
	}
}

// ---------- shrinking ----------

func (c12) Shrink(raw json.RawMessage) []any {
	var c c12Case
	if json.Unmarshal(raw, &c) != nil {
		return nil
	}
	var out []any
	if c.Kind == "hist" {
		for i := range c.Ops {
			d := c
			d.Ops = append(append([]c12Op{}, c.Ops[:i]...), c.Ops[i+1:]...)
			out = append(out, d)
		}
		if len(c.Init) > 1 {
			d := c
			d.Init = c.Init[:len(c.Init)-1]
			out = append(out, d)
		}
		return out
	}
	// alter: drop members of the document that the path does not name
	var drop func(v any, p []string) []any
	drop = func(v any, p []string) []any {
		var res []any
		switch t := v.(type) {
		case map[string]any:
			for k := range t {
				if len(p) > 0 && k == p[0] {
					for _, sub := range drop(t[k], p[1:]) {
						m := map[string]any{}
						for k2, x := range t {
							m[k2] = x
						}
						m[k] = sub
						res = append(res, m)
					}
					continue
				}
				m := map[string]any{}
				for k2, x := range t {
					if k2 != k {
						m[k2] = x
					}
				}
				res = append(res, m)
			}
		case []any:
			if len(t) > 0 {
				res = append(res, append([]any{}, t[:len(t)-1]...))
			}
		}
		return res
	}
	for _, d := range drop(c.Doc, c.Path) {
		e := c
		e.Doc = d
		out = append(out, e)
	}
	return out
}
