//go:build prop_c23 || prop_all

package main

// C23 — Function parameters are bound and typed as declared.
// Each case: a signature text, (for generated well-formed signatures) the parameter list the
// generator meant, and a list of call arguments.  Run: lang.ParseMxFunctionParameters directly,
// and — when the text survives murex's own statement parser unchanged — the real declaration
// `function f (sig) { out BODY; runtime --variables }` followed by `f 'arg' ...` in-process.

import (
	"encoding/json"
	"fmt"
	"math/rand"
	"strings"
	"time"

	"github.com/lmorg/murex/lang"
	"github.com/lmorg/murex/lang/types"

	"verifharness/coqlit"
)

type c23Param struct {
	Name    string `json:"n"`
	Type    string `json:"t"`
	Desc    string `json:"d"`
	Default string `json:"v"`
	HasDef  bool   `json:"h"`
	Opt     bool   `json:"o"`
}

type c23Case struct {
	Sig    string     `json:"sig"`
	Expect []c23Param `json:"expect,omitempty"` // nil: no expectation
	Args   []string   `json:"args"`
	Call   bool       `json:"call"` // try the real declaration + call
	Class  string     `json:"class"`
}

type c23Var struct {
	Set  bool   `json:"set"`
	Type string `json:"type,omitempty"`
	Str  string `json:"str,omitempty"`
}

type c23Conv struct {
	Type string `json:"t"`
	In   string `json:"s"`
	Ok   bool   `json:"ok"`
	Out  string `json:"r,omitempty"`
}

type c23Obs struct {
	ParseOk  bool       `json:"parse_ok"`
	Params   []c23Param `json:"params,omitempty"`
	Panic    bool       `json:"panic,omitempty"`
	Called   bool       `json:"called"`
	Body     bool       `json:"body,omitempty"`
	ExitZero bool       `json:"exit_zero,omitempty"`
	Vars     []c23Var   `json:"vars,omitempty"`
	Conv     []c23Conv  `json:"conv,omitempty"`
	Note     string     `json:"note,omitempty"`
}

type c23 struct{}

func init() { register("C23", c23{}) }

// ---------------------------------------------------------------- generator

var c23Names = []string{"a", "b", "c", "name", "age", "x1", "user-name", "max_len", "Q", "v-2", "n0", "flag", "k", "z9", "opt"}
var c23OddNames = []string{"12", "_", "0", "a", "-", "--x", "7up", "_x"}
var c23Types = []string{"str", "int", "num", "bool", "str", "int", "num", "bool", "float"}

// punctuation that murex's own statement parser leaves alone inside ( ... )
const c23SafePunct = `:,![]"#%^&*+=|<>?/.;-_ `

func c23Pick(r *rand.Rand, xs []string) string { return xs[r.Intn(len(xs))] }

// free text for a default / description: no closing delimiter, no new line / CR / tab
func c23FreeText(r *rand.Rand, closing rune, safe bool) string {
	n := r.Intn(9)
	if r.Intn(6) == 0 {
		n = 0
	}
	var b strings.Builder
	for i := 0; i < n; i++ {
		var c rune
		switch k := r.Intn(10); {
		case k < 4:
			c = rune("abcxyzXYZ0189"[r.Intn(13)])
		case k < 8:
			c = rune(c23SafePunct[r.Intn(len(c23SafePunct))])
		case k < 9:
			c = []rune("é日ß→")[r.Intn(4)]
		default:
			if safe {
				c = ' '
			} else {
				c = []rune("(){}$@~\\'`")[r.Intn(10)]
			}
		}
		if c == closing {
			c = '.'
		}
		b.WriteRune(c)
	}
	return b.String()
}

func c23ValueFor(r *rand.Rand, ty string) string {
	ints := []string{"42", "-7", "0", "007", "3.7", "1e3", "123456789012345", "-1", "9", "10", " 5 ", "+4", "-0"}
	nums := []string{"2.50", "0.1", "-3.25", "1e-2", "100", ".5", "5.", "1_000", "0x1F", "1e30", "7", "-0.0"}
	bools := []string{"true", "false", "yes", "no", "on", "off", "1", "0", "TRUE", "False", "", "null", "fail", "maybe", "disabled"}
	words := []string{"abc", "ten", "x", "hello world", "12abc", "--", "e", "é", "nan-", "infinit", "", " "}
	switch k := r.Intn(10); {
	case k < 2:
		return c23Pick(r, words)
	case k < 3:
		return c23Pick(r, append(append(ints, nums...), bools...))
	}
	switch ty {
	case "int":
		return c23Pick(r, ints)
	case "num", "float":
		return c23Pick(r, append(nums, ints...))
	case "bool":
		return c23Pick(r, bools)
	default:
		return c23Pick(r, append(words, "42", "true", "a:b,c", "[x]", "q!"))
	}
}

func c23Ws(r *rand.Rand, chars string, min, max int) string {
	n := min
	if max > min {
		n += r.Intn(max - min + 1)
	}
	var b strings.Builder
	for i := 0; i < n; i++ {
		b.WriteByte(chars[r.Intn(len(chars))])
	}
	return b.String()
}

// one well-formed parameter list, 1..5 parameters, mandatory before optional
func c23GenParams(r *rand.Rand, safe bool) []c23Param {
	n := 1 + r.Intn(5)
	firstOpt := r.Intn(n + 1)
	if r.Intn(3) == 0 {
		firstOpt = 0
	}
	ps := make([]c23Param, n)
	used := map[string]bool{}
	for i := range ps {
		name := c23Pick(r, c23Names)
		if r.Intn(12) == 0 {
			name = c23Pick(r, c23OddNames)
		}
		if used[name] && r.Intn(4) != 0 { // duplicates are legal but kept rare
			name = fmt.Sprintf("%s%d", name, i)
		}
		used[name] = true
		p := c23Param{Name: name, Type: c23Pick(r, c23Types), Opt: i >= firstOpt}
		if r.Intn(2) == 0 {
			p.HasDef = true
			switch r.Intn(3) {
			case 0:
				p.Default = c23FreeText(r, ']', safe)
			default:
				p.Default = strings.ReplaceAll(c23ValueFor(r, p.Type), "]", ".")
			}
		}
		if r.Intn(2) == 0 {
			p.Desc = c23FreeText(r, '"', safe)
		}
		ps[i] = p
	}
	return ps
}

// canonical text of one parameter list (the Coq print_sig)
func c23Print(ps []c23Param) string {
	parts := make([]string, len(ps))
	for i, p := range ps {
		s := ""
		if p.Opt {
			s = "!"
		}
		s += p.Name + ": " + p.Type
		if p.HasDef {
			s += " [" + p.Default + "]"
		}
		if p.Desc != "" {
			s += ` "` + p.Desc + `"`
		}
		parts[i] = s
	}
	return strings.Join(parts, ", ")
}

// any text of the documented grammar that denotes ps; returns the parameter list the text
// denotes (type "str" when the type is left out)
func c23PrintLoose(r *rand.Rand, ps []c23Param) (string, []c23Param) {
	const S = " \t\n"
	const B = " \t"
	out := make([]c23Param, len(ps))
	var b strings.Builder
	cr := r.Intn(8) == 0 // CRLF line ends
	for i, p := range ps {
		if i > 0 {
			b.WriteByte(',')
		}
		b.WriteString(c23Ws(r, S, 0, 3))
		if p.Opt {
			b.WriteByte('!')
		}
		b.WriteString(p.Name)
		q := p
		bare := !p.HasDef && p.Desc == "" && r.Intn(3) == 0
		if bare { // name only
			q.Type = "str"
			out[i] = q
			continue
		}
		b.WriteByte(':')
		b.WriteString(c23Ws(r, B, 0, 2))
		b.WriteString(p.Type)
		def := "[" + p.Default + "]"
		desc := `"` + p.Desc + `"`
		hasDesc := p.Desc != "" || r.Intn(6) == 0 // an explicit empty description is legal too
		switch {
		case p.HasDef && hasDesc:
			b.WriteString(c23Ws(r, S, 1, 3))
			if r.Intn(2) == 0 {
				b.WriteString(def + c23Ws(r, S, 0, 2) + desc)
			} else {
				b.WriteString(desc + c23Ws(r, S, 0, 2) + def)
			}
			b.WriteString(c23Ws(r, S, 0, 2))
		case p.HasDef:
			b.WriteString(c23Ws(r, S, 1, 3) + def + c23Ws(r, S, 0, 2))
		case hasDesc:
			b.WriteString(c23Ws(r, S, 1, 3) + desc + c23Ws(r, S, 0, 2))
		default:
			b.WriteString(c23Ws(r, S, 0, 2))
		}
		out[i] = q
	}
	s := b.String()
	if cr {
		s = strings.ReplaceAll(s, "\n", "\r\n")
	}
	return s, out
}

func c23Mutate(r *rand.Rand, s string) string {
	rs := []rune(s)
	const pool = "a1-_!:,[]\" \t\n\r.x("
	k := 1 + r.Intn(2)
	for ; k > 0; k-- {
		pos := 0
		if len(rs) > 0 {
			pos = r.Intn(len(rs) + 1)
		}
		c := rune(pool[r.Intn(len(pool))])
		switch op := r.Intn(4); {
		case op == 0 && len(rs) > 0 && pos < len(rs): // delete
			rs = append(rs[:pos:pos], rs[pos+1:]...)
		case op == 1 && pos < len(rs): // replace
			rs[pos] = c
		case op == 2 && pos < len(rs) && pos > 0: // swap neighbours
			rs[pos-1], rs[pos] = rs[pos], rs[pos-1]
		default: // insert
			rs = append(rs[:pos:pos], append([]rune{c}, rs[pos:]...)...)
		}
	}
	return string(rs)
}

func c23GenArgs(r *rand.Rand, ps []c23Param) []string {
	mand := 0
	for _, p := range ps {
		if !p.Opt {
			mand++
		}
	}
	n := mand
	if len(ps)+1 > mand {
		n += r.Intn(len(ps) + 2 - mand)
	}
	args := make([]string, n)
	for i := range args {
		ty := "str"
		if i < len(ps) {
			ty = ps[i].Type
		}
		args[i] = strings.ReplaceAll(c23ValueFor(r, ty), "'", ".")
	}
	return args
}

var c23Corpus = []c23Case{
	// D1: the documented multi-line form without default / description (was: unexpected new line)
	{Sig: "\n  a: str\n", Expect: []c23Param{{Name: "a", Type: "str"}}, Args: []string{"1"}, Call: true, Class: "corpus"},
	{Sig: "\n\ta: int\n,\n\tb: num\n", Expect: []c23Param{{Name: "a", Type: "int"}, {Name: "b", Type: "num"}}, Args: []string{"1", "2.5"}, Call: true, Class: "corpus"},
	// D2: whitespace before the comma (was: unexpected comma)
	{Sig: "a: str , b: int", Expect: []c23Param{{Name: "a", Type: "str"}, {Name: "b", Type: "int"}}, Args: []string{"x", "2"}, Call: true, Class: "corpus"},
	// D3: '[' in a name / type was silently dropped
	{Sig: "na[me: s[tr", Args: []string{"x"}, Call: true, Class: "corpus"},
	{Sig: "a: int [3] [", Args: []string{}, Call: true, Class: "corpus"},
	// D4: repeated description / default were concatenated
	{Sig: `a: str "x" [d] "y" [e]`, Args: []string{"x"}, Call: true, Class: "corpus"},
	{Sig: `!a: str [d] "x" [e]`, Args: []string{}, Call: true, Class: "corpus"},
	// the documentation's and the test-suite's examples
	{Sig: `name: str [Bob] "User name", age:  num [100] "How old are you?"`, Args: []string{"Al", "3"}, Call: true, Class: "corpus",
		Expect: []c23Param{{Name: "name", Type: "str", Default: "Bob", HasDef: true, Desc: "User name"}, {Name: "age", Type: "num", Default: "100", HasDef: true, Desc: "How old are you?"}}},
	{Sig: `name, age`, Args: []string{"a", "b"}, Call: true, Class: "corpus", Expect: []c23Param{{Name: "name", Type: "str"}, {Name: "age", Type: "str"}}},
	{Sig: `age: int "how old are you?" [123]`, Args: []string{"ten"}, Call: true, Class: "corpus",
		Expect: []c23Param{{Name: "age", Type: "int", Default: "123", HasDef: true, Desc: "how old are you?"}}},
	{Sig: `age: int`, Args: []string{"1.2"}, Call: true, Class: "corpus", Expect: []c23Param{{Name: "age", Type: "int"}}},
	{Sig: `!var:datatype [default-value] "description"`, Args: []string{}, Call: false, Class: "corpus",
		Expect: []c23Param{{Name: "var", Type: "datatype", Default: "default-value", HasDef: true, Desc: "description", Opt: true}}},
	{Sig: "!a: int [5], b: str", Args: []string{"1", "2"}, Call: true, Class: "corpus"},
	{Sig: "a: int, !b: num [2.50], !c: str", Args: []string{"3"}, Call: true, Class: "corpus",
		Expect: []c23Param{{Name: "a", Type: "int"}, {Name: "b", Type: "num", Default: "2.50", HasDef: true, Opt: true}, {Name: "c", Type: "str", Opt: true}}},
	{Sig: "!a: int [abc]", Args: []string{}, Call: true, Class: "corpus"},
	{Sig: "a: int, a: str", Args: []string{"1", "x"}, Call: true, Class: "corpus"},
	{Sig: "12: int", Args: []string{"1"}, Call: true, Class: "corpus"},
	{Sig: "", Args: []string{}, Call: false, Class: "corpus"},
	{Sig: "a: str,", Args: []string{"1"}, Call: true, Class: "corpus"},
	{Sig: "!", Args: []string{}, Call: false, Class: "corpus"},
	{Sig: "!:int", Args: []string{}, Call: false, Class: "corpus"},
	{Sig: "a: str \"tab\there\"", Args: []string{"1"}, Call: false, Class: "corpus"},
}

func (c23) Gen(seed int64, tier string, emit func(any)) {
	for _, c := range c23Corpus {
		emit(c)
	}
	// exhaustive: every text over one representative per character class, up to length L
	alpha := []rune("a!:,[]\" \n\rx.")
	alpha[10] = '9' // second identifier character
	L := 3
	nStruct, nLoose, nMut, nRand := 350, 350, 500, 200
	if tier == "thorough" {
		L = 4
		nStruct, nLoose, nMut, nRand = 6000, 6000, 9000, 3000
	}
	var rec func(prefix []rune, l int)
	rec = func(prefix []rune, l int) {
		emit(c23Case{Sig: string(prefix), Args: []string{}, Call: false, Class: "exhaustive"})
		if l == 0 {
			return
		}
		for _, c := range alpha {
			rec(append(prefix[:len(prefix):len(prefix)], c), l-1)
		}
	}
	rec(nil, L)

	r := rand.New(rand.NewSource(seed))
	for i := 0; i < nStruct; i++ { // canonical text, real call
		ps := c23GenParams(r, true)
		emit(c23Case{Sig: c23Print(ps), Expect: ps, Args: c23GenArgs(r, ps), Call: true, Class: "canonical"})
	}
	for i := 0; i < nLoose; i++ { // any layout of the grammar
		safe := r.Intn(3) != 0
		ps := c23GenParams(r, safe)
		s, want := c23PrintLoose(r, ps)
		emit(c23Case{Sig: s, Expect: want, Args: c23GenArgs(r, ps), Call: safe, Class: "layout"})
	}
	for i := 0; i < nMut; i++ { // malformed variants
		ps := c23GenParams(r, true)
		var s string
		if r.Intn(2) == 0 {
			s = c23Print(ps)
		} else {
			s, _ = c23PrintLoose(r, ps)
		}
		s = c23Mutate(r, s)
		emit(c23Case{Sig: s, Args: c23GenArgs(r, ps), Call: r.Intn(2) == 0, Class: "mutated"})
	}
	for i := 0; i < nRand; i++ { // longer random texts over the class alphabet
		n := 4 + r.Intn(12)
		rs := make([]rune, n)
		for j := range rs {
			pool := []rune("ab1!:,[]\" \n\r\tx.-_é")
			rs[j] = pool[r.Intn(len(pool))]
		}
		emit(c23Case{Sig: string(rs), Args: []string{"1"}, Call: false, Class: "random"})
	}
}

// ---------------------------------------------------------------- run

func c23FromGo(ps []lang.MurexFuncParam) []c23Param {
	out := make([]c23Param, len(ps))
	for i, p := range ps {
		out[i] = c23Param{Name: p.Name, Type: p.DataType, Desc: p.Description, Default: p.Default, HasDef: p.HasDefault, Opt: p.Optional}
	}
	return out
}

func c23Parse(sig string) (ps []lang.MurexFuncParam, ok bool, panicked bool) {
	defer func() {
		if e := recover(); e != nil {
			ps, ok, panicked = nil, false, true
		}
	}()
	p, err := lang.ParseMxFunctionParameters(sig)
	if err != nil {
		return nil, false, false
	}
	return p, true, false
}

// text that murex's statement parser passes through a ( ... ) parameter unchanged
func c23CallSafe(sig string) bool {
	for _, c := range sig {
		switch c {
		case '(', ')', '{', '}', '$', '@', '~', '\\', '\'', '`':
			return false
		}
		if c < 32 && c != '\n' && c != '\t' && c != '\r' {
			return false
		}
	}
	return true
}

func c23ArgSafe(a string) bool { return !strings.ContainsAny(a, "'\x00") }

var c23Counter int

func c23CoqParam(p c23Param) string {
	return coqlit.Record("p_name", coqlit.Runes(p.Name), "p_type", coqlit.Runes(p.Type), "p_desc", coqlit.Runes(p.Desc),
		"p_default", coqlit.Runes(p.Default), "p_hasdef", coqlit.Bool(p.HasDef), "p_opt", coqlit.Bool(p.Opt))
}

func c23CoqParams(ps []c23Param) string {
	e := make([]string, len(ps))
	for i, p := range ps {
		e[i] = c23CoqParam(p)
	}
	return coqlit.List(e)
}

func (c23) Run(raw json.RawMessage) Result {
	var c c23Case
	if err := json.Unmarshal(raw, &c); err != nil {
		die("C23: bad case: %v", err)
	}
	initMurex()
	var o c23Obs
	goPs, ok, panicked := c23Parse(c.Sig)
	o.ParseOk, o.Panic = ok, panicked
	if ok {
		o.Params = c23FromGo(goPs)
	}

	// conversions the call may need: argument i and the default of every declared parameter
	seen := map[string]bool{}
	addConv := func(ty, s string) {
		k := ty + "\x00" + s
		if seen[k] {
			return
		}
		seen[k] = true
		cv := c23Conv{Type: ty, In: s}
		v, err := types.ConvertGoType(s, ty)
		if err == nil {
			sv, err2 := types.ConvertGoType(v, types.String)
			if err2 == nil {
				cv.Ok = true
				cv.Out = sv.(string)
			}
		}
		o.Conv = append(o.Conv, cv)
	}
	mandatory := 0
	for i, p := range goPs {
		if i < len(c.Args) {
			addConv(p.DataType, c.Args[i])
		}
		if p.HasDefault {
			addConv(p.DataType, p.Default)
		}
		if !p.Optional {
			mandatory++
		}
	}

	argsOk := true
	for _, a := range c.Args {
		argsOk = argsOk && c23ArgSafe(a)
	}
	if c.Call && argsOk && c23CallSafe(c.Sig) && (!ok || len(c.Args) >= mandatory) {
		c23Counter++
		fn := fmt.Sprintf("vfc23x%d", c23Counter)
		var b strings.Builder
		fmt.Fprintf(&b, "function %s (%s) { out C23BODY; runtime --variables }\n%s", fn, c.Sig, fn)
		for _, a := range c.Args {
			b.WriteString(" '" + a + "'")
		}
		b.WriteString("\n")
		r := RunMurex(b.String(), 20*time.Second)
		lang.MxFunctions.Undefine(fn)
		o.Called = true
		o.ExitZero = r.ExitNum == 0 && !r.Timeout
		if r.Timeout {
			o.Note = "timeout"
		}
		if idx := strings.Index(r.Stdout, "C23BODY\n"); idx >= 0 {
			o.Body = true
			var vars map[string]struct {
				DataType string
				String   string
			}
			if err := json.Unmarshal([]byte(r.Stdout[idx+8:]), &vars); err != nil {
				o.Note = "cannot read runtime --variables: " + err.Error()
				o.Body = false
			} else {
				for _, p := range goPs {
					if v, found := vars[p.Name]; found {
						o.Vars = append(o.Vars, c23Var{Set: true, Type: v.DataType, Str: v.String})
					} else {
						o.Vars = append(o.Vars, c23Var{})
					}
				}
			}
		}
	}

	// ---- Coq term
	parse := "None"
	if ok {
		parse = "(Some " + c23CoqParams(o.Params) + ")"
	}
	expect := "None"
	if c.Expect != nil {
		expect = "(Some " + c23CoqParams(c.Expect) + ")"
	}
	args := make([]string, len(c.Args))
	for i, a := range c.Args {
		args[i] = coqlit.Runes(a)
	}
	conv := make([]string, len(o.Conv))
	for i, cv := range o.Conv {
		conv[i] = "(" + coqlit.Runes(cv.Type) + ", " + coqlit.Runes(cv.In) + ", " + coqlit.Option(cv.Ok, coqlit.Runes(cv.Out)) + ")"
	}
	call := "None"
	if o.Called {
		vs := make([]string, len(o.Vars))
		for i, v := range o.Vars {
			vs[i] = coqlit.Option(v.Set, "("+coqlit.Runes(v.Type)+", "+coqlit.Runes(v.Str)+")")
		}
		call = "(Some " + coqlit.Record("o_body", coqlit.Bool(o.Body), "o_exit_zero", coqlit.Bool(o.ExitZero), "o_vars", coqlit.List(vs)) + ")"
	}
	coq := coqlit.Record("c_sig", coqlit.Runes(c.Sig), "c_expect", expect, "c_parse", parse, "c_panic", coqlit.Bool(o.Panic),
		"c_args", coqlit.List(args), "c_conv", coqlit.List(conv), "c_call", call)
	nontrivial := len([]rune(c.Sig)) >= 3 && (ok || c.Class == "mutated" || c.Class == "corpus")
	cls := c.Class
	if ok {
		cls += "/accepted"
	} else {
		cls += "/rejected"
	}
	if o.Called {
		cls += "/called"
	}
	return Result{Obs: o, Coq: coq, Nontrivial: nontrivial, Class: cls}
}

// Shrink: drop an argument, drop a character of the signature.
func (c23) Shrink(raw json.RawMessage) []any {
	var c c23Case
	if err := json.Unmarshal(raw, &c); err != nil {
		return nil
	}
	var out []any
	for i := range c.Args {
		d := c
		d.Args = append(append([]string{}, c.Args[:i]...), c.Args[i+1:]...)
		out = append(out, d)
	}
	rs := []rune(c.Sig)
	for i := range rs {
		d := c
		d.Expect = nil
		d.Sig = string(rs[:i]) + string(rs[i+1:])
		out = append(out, d)
	}
	return out
}
