//go:build prop_c06 || prop_c07 || prop_all

package main

// Shared by C06 and C07: expression token trees, printing them as murex source,
// evaluating them with the real lang/expressions code, and rendering case +
// observation as a Gallina term of type Check.C0x.case.

import (
	"fmt"
	"math"
	"math/rand"
	"strconv"
	"strings"
	"sync"
	"time"

	"github.com/lmorg/murex/lang"
	"github.com/lmorg/murex/lang/expressions"
	"github.com/lmorg/murex/lang/ref"
	"github.com/lmorg/murex/lang/types"

	"verifharness/coqlit"
)

// exprTok is one token of an expression as generated. Exactly one of
// Num/Str/Bool/Null/Op/Sub is set. W = number of spaces printed before it.
type exprTok struct {
	Num  string    `json:"n,omitempty"`  // number literal text, e.g. "1.50", "-3"
	Str  *string   `json:"s,omitempty"`  // quoted string literal (content)
	Bool *bool     `json:"b,omitempty"`  // true / false
	Null bool      `json:"z,omitempty"`  // null
	Op   string    `json:"o,omitempty"`  // + - * / < <= > >= == != && || ?: ??
	Sub  []exprTok `json:"p,omitempty"`  // parenthesised sub-expression
	Par  bool      `json:"pp,omitempty"` // Sub is set (needed for an empty group)
	W    int       `json:"w,omitempty"`
}

var exprOpCoq = map[string]string{
	"*": "Mul", "/": "Div", "+": "Add", "-": "Sub",
	">": "Gt", ">=": "Ge", "<": "Lt", "<=": "Le", "==": "Eq", "!=": "Ne",
	"&&": "And", "||": "Or", "?:": "Elvis", "??": "NullCo",
}

func exprIsGroup(t exprTok) bool { return t.Par || t.Sub != nil }

// exprSource prints the token list as murex source.
func exprSource(ts []exprTok) string {
	var b strings.Builder
	for _, t := range ts {
		b.WriteString(strings.Repeat(" ", t.W))
		switch {
		case exprIsGroup(t):
			b.WriteString("(" + exprSource(t.Sub) + ")")
		case t.Op != "":
			b.WriteString(t.Op)
		case t.Num != "":
			b.WriteString(t.Num)
		case t.Str != nil:
			b.WriteString("'" + *t.Str + "'")
		case t.Bool != nil:
			if *t.Bool {
				b.WriteString("true")
			} else {
				b.WriteString("false")
			}
		case t.Null:
			b.WriteString("null")
		}
	}
	return b.String()
}

// exprFloatCoq renders a float64 exactly as a Coq primitive float term.
func exprFloatCoq(f float64) string {
	switch {
	case math.IsNaN(f):
		return "nan"
	case math.IsInf(f, 1):
		return "infinity"
	case math.IsInf(f, -1):
		return "neg_infinity"
	case f == 0 && math.Signbit(f):
		return "neg_zero"
	case f == 0:
		return "zero"
	}
	s := strconv.FormatFloat(math.Abs(f), 'x', -1, 64) // 0x1.8p+01
	if f < 0 {
		return "(-" + s + ")%float"
	}
	return "(" + s + ")%float"
}

func exprValueCoq(v any) (string, bool) {
	switch t := v.(type) {
	case nil:
		return "VNull", true
	case float64:
		return "(VNum " + exprFloatCoq(t) + ")", true
	case int:
		return "(VNum " + exprFloatCoq(float64(t)) + ")", true
	case bool:
		return "(VBool " + coqlit.Bool(t) + ")", true
	case string:
		return "(VStr " + coqlit.Bytes(t) + ")", true
	}
	return "VNull", false
}

// exprToksCoq renders the token list as a list ptok. Number literals carry the
// float64 that strconv.ParseFloat gives for their text (assumption: correctly
// rounded; the implementation uses the same function).
func exprToksCoq(ts []exprTok) string {
	el := make([]string, 0, len(ts))
	for _, t := range ts {
		switch {
		case exprIsGroup(t):
			el = append(el, "PP "+exprToksCoq(t.Sub))
		case t.Op != "":
			c, ok := exprOpCoq[t.Op]
			if !ok {
				die("bad operator %q", t.Op)
			}
			el = append(el, "PO "+c)
		case t.Num != "":
			f, err := strconv.ParseFloat(t.Num, 64)
			if err != nil {
				die("bad number literal %q", t.Num)
			}
			el = append(el, "PV (VNum "+exprFloatCoq(f)+")")
		case t.Str != nil:
			el = append(el, "PV (VStr "+coqlit.Bytes(*t.Str)+")")
		case t.Bool != nil:
			el = append(el, "PV (VBool "+coqlit.Bool(*t.Bool)+")")
		case t.Null:
			el = append(el, "PV VNull")
		default:
			die("empty token")
		}
	}
	return coqlit.List(el)
}

type exprObs struct {
	Kind  int    `json:"kind"` // 0 value, 1 error, 2 panic, 3 timeout, 4 value of a type outside the model
	Type  string `json:"type,omitempty"`
	Value string `json:"value,omitempty"` // for the evidence only
	Bits  string `json:"bits,omitempty"`  // math.Float64bits for numbers
	Src   string `json:"src"`
	Err   string `json:"err,omitempty"` // for the evidence only; never compared
	coq   string
}

var exprProcOnce sync.Once
var exprCounter int

// exprEval runs expressions.ExecuteExpr on the source text in a fresh fork.
func exprEval(src string) exprObs {
	initMurex()
	exprCounter++
	o := exprObs{Src: src}
	type ret struct {
		v   any
		dt  string
		err error
		pan any
	}
	done := make(chan ret, 1)
	fork := lang.ShellProcess.Fork(lang.F_FUNCTION | lang.F_NEW_MODULE | lang.F_NO_STDIN | lang.F_CREATE_STDOUT | lang.F_CREATE_STDERR)
	fork.Name.Set("verif")
	fork.FileRef = &ref.File{Source: &ref.Source{Module: fmt.Sprintf("murex/verif-expr-%d", exprCounter)}}
	go func() {
		defer func() {
			if r := recover(); r != nil {
				done <- ret{pan: r}
			}
		}()
		dt, err := expressions.ExecuteExpr(fork.Process, []rune(src))
		if err != nil {
			done <- ret{err: err}
			return
		}
		val, err := dt.GetValue()
		if err != nil {
			done <- ret{err: err}
			return
		}
		done <- ret{v: val.Value, dt: val.DataType}
	}()
	select {
	case r := <-done:
		switch {
		case r.pan != nil:
			o.Kind = 2
			o.Err = fmt.Sprint(r.pan)
			o.coq = coqlit.Record("o_kind", "2", "o_val", "VNull")
		case r.err != nil:
			o.Kind = 1
			o.Err = r.err.Error()
			if len(o.Err) > 160 {
				o.Err = o.Err[:160]
			}
			o.coq = coqlit.Record("o_kind", "1", "o_val", "VNull")
		default:
			c, ok := exprValueCoq(r.v)
			o.Type = r.dt
			o.Value = fmt.Sprint(r.v)
			if f, isf := r.v.(float64); isf {
				o.Bits = fmt.Sprintf("%016x", math.Float64bits(f))
			}
			if ok {
				o.Kind = 0
				o.coq = coqlit.Record("o_kind", "0", "o_val", c)
			} else {
				o.Kind = 4
				o.coq = coqlit.Record("o_kind", "4", "o_val", "VNull")
			}
		}
	case <-time.After(20 * time.Second):
		o.Kind = 3
		o.coq = coqlit.Record("o_kind", "3", "o_val", "VNull")
	}
	fork.Process.Done()
	return o
}

// ---- generation helpers ----

func exprNum(s string) exprTok { return exprTok{Num: s} }
func exprStr(s string) exprTok { return exprTok{Str: &s} }
func exprBool(b bool) exprTok  { return exprTok{Bool: &b} }
func exprNull() exprTok        { return exprTok{Null: true} }
func exprOp(o string) exprTok  { return exprTok{Op: o} }
func exprGroup(ts []exprTok) exprTok {
	return exprTok{Sub: ts, Par: true}
}

// exprSpaces sets random spacing: the first token gets no leading space; a
// number following a "-" operator... any spacing parses to the same tokens
// (the `-` literal-versus-operator rule looks at the previous node only).
func exprSpaces(r *rand.Rand, ts []exprTok, style int) []exprTok {
	out := make([]exprTok, len(ts))
	for i, t := range ts {
		if exprIsGroup(t) {
			t.Sub = exprSpaces(r, t.Sub, style)
		}
		switch style {
		case 0: // single spaces
			t.W = 1
		case 1: // dense
			t.W = 0
		default:
			t.W = r.Intn(3)
		}
		if i == 0 {
			t.W = 0
			if style >= 2 {
				t.W = r.Intn(2)
			}
		}
		out[i] = t
	}
	return out
}

// exprDepth is the nesting depth of groups.
func exprDepth(ts []exprTok) int {
	d := 0
	for _, t := range ts {
		if exprIsGroup(t) {
			if x := 1 + exprDepth(t.Sub); x > d {
				d = x
			}
		}
	}
	return d
}

func exprCountOps(ts []exprTok) int {
	n := 0
	for _, t := range ts {
		if t.Op != "" {
			n++
		}
		if exprIsGroup(t) {
			n += exprCountOps(t.Sub)
		}
	}
	return n
}

// exprShrink proposes smaller token lists: drop an (operator, operand) pair,
// replace a group by its contents' first operand, flatten a group, shrink inside groups.
func exprShrink(ts []exprTok) [][]exprTok {
	var out [][]exprTok
	// drop pair (op, operand) at positions i, i+1 (i odd)
	for i := 1; i+1 < len(ts); i += 2 {
		c := append(append([]exprTok{}, ts[:i]...), ts[i+2:]...)
		out = append(out, c)
	}
	// drop leading operand + operator
	if len(ts) >= 3 {
		out = append(out, append([]exprTok{}, ts[2:]...))
	}
	for i, t := range ts {
		if !exprIsGroup(t) {
			continue
		}
		// splice the group's tokens in place (removes the parentheses)
		c := append(append(append([]exprTok{}, ts[:i]...), t.Sub...), ts[i+1:]...)
		out = append(out, c)
		// replace the group by its first token
		if len(t.Sub) > 0 {
			c2 := append([]exprTok{}, ts...)
			c2[i] = t.Sub[0]
			out = append(out, c2)
		}
		for _, s := range exprShrink(t.Sub) {
			c3 := append([]exprTok{}, ts...)
			c3[i] = exprGroup(s)
			out = append(out, c3)
		}
	}
	return out
}

// ---- observed library tables (strconv via lang/types) for one case ----

func exprCollectStrings(ts []exprTok, seen map[string]bool, out *[]string) {
	for _, t := range ts {
		if t.Str != nil && !seen[*t.Str] {
			seen[*t.Str] = true
			*out = append(*out, *t.Str)
		}
		if exprIsGroup(t) {
			exprCollectStrings(t.Sub, seen, out)
		}
	}
}

// exprCollectLits: the text of every number literal (strconv.ParseFloat of it is its value)
func exprCollectLits(ts []exprTok, seen map[string]bool, out *[]string) {
	for _, t := range ts {
		if t.Num != "" && !seen[t.Num] {
			seen[t.Num] = true
			*out = append(*out, t.Num)
		}
		if exprIsGroup(t) {
			exprCollectLits(t.Sub, seen, out)
		}
	}
}

func exprCollectFloats(ts []exprTok, seen map[uint64]bool, out *[]float64) {
	for _, t := range ts {
		if exprIsGroup(t) {
			exprCollectFloats(t.Sub, seen, out)
		}
	}
	// every contiguous operand..operand window of this group that evaluates to a number
	for i := 0; i < len(ts); i += 2 {
		for j := i; j < len(ts); j += 2 {
			numeric := true
			for k := i; k <= j; k++ {
				t := ts[k]
				if !(t.Num != "" || exprIsGroup(t) || t.Op == "+" || t.Op == "-" || t.Op == "*" || t.Op == "/") {
					numeric = false
					break
				}
			}
			if !numeric {
				break
			}
			w := append([]exprTok{}, ts[i:j+1]...)
			for k := range w {
				w[k].W = 1
			}
			o := exprEval(exprSource(w))
			if o.Kind == 0 && o.Bits != "" {
				b, _ := strconv.ParseUint(o.Bits, 16, 64)
				if !seen[b] {
					seen[b] = true
					*out = append(*out, math.Float64frombits(b))
				}
			}
		}
	}
}

// exprOracles returns the Gallina record of observed conversions for the case:
// ConvertGoType(s, Number) for every string literal and FloatToString(f) for
// every number that a contiguous arithmetic window of the case evaluates to
// (only when the case has a string literal: only then can a number be printed).
func exprOracles(ts []exprTok) string {
	var strs, lits []string
	exprCollectStrings(ts, map[string]bool{}, &strs)
	exprCollectLits(ts, map[string]bool{}, &lits)
	var pe []string
	for _, s := range append(append([]string{}, lits...), strs...) {
		v, err := types.ConvertGoType(s, types.Number)
		if err != nil {
			pe = append(pe, "("+coqlit.Bytes(s)+", None)")
			continue
		}
		f, ok := v.(float64)
		if !ok {
			continue
		}
		pe = append(pe, "("+coqlit.Bytes(s)+", Some "+exprFloatCoq(f)+")")
	}
	var fl []float64
	if len(strs) > 0 {
		exprCollectFloats(ts, map[uint64]bool{}, &fl)
	}
	var fe []string
	for _, f := range fl {
		fe = append(fe, "("+exprFloatCoq(f)+", "+coqlit.Bytes(types.FloatToString(f))+")")
	}
	return coqlit.Record("or_parse", coqlit.List(pe), "or_fmt", coqlit.List(fe))
}
