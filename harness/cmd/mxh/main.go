// mxh — harness that runs the real murex code (built from /repo's working tree
// with -tags verif) on generated cases and prints one observation per line.
//
//	mxh gen   Cxx --seed S --tier quick|thorough   -> cases, one JSON per line on stdout
//	mxh run   Cxx                                  <- cases on stdin; -> result lines on stdout
//	mxh shrink Cxx                                 <- one case on stdin; -> smaller candidate cases
//	mxh child Cxx ...                              internal: re-exec for crash isolation
//	mxh list
//
// A result line is JSON: {"i":n,"case":<case>,"obs":<obs>,"coq":"<Gallina term of type Check.Cxx.case>",
// "nontrivial":bool,"class":"<distribution bucket>"}.
package main

import (
	"bufio"
	"encoding/json"
	"flag"
	"fmt"
	"os"
	"sort"
	"sync"

	_ "github.com/lmorg/murex/builtins"
	"github.com/lmorg/murex/builtins/docs"
	"github.com/lmorg/murex/config/defaults"
	"github.com/lmorg/murex/lang"
)

// Result is what Run returns for one case.
type Result struct {
	Obs        any    `json:"obs"`
	Coq        string `json:"coq"`
	Nontrivial bool   `json:"nontrivial"`
	Class      string `json:"class"`
}

// Prop is the per-property plug-in. One file cNN.go per property registers one.
type Prop interface {
	// Gen emits cases (any JSON-marshalable value): corpus/exhaustive part first
	// (seed independent), then random cases all derived from seed.
	Gen(seed int64, tier string, emit func(c any))
	// Run executes one case against the implementation.
	Run(c json.RawMessage) Result
}

// Shrinker is optional: propose strictly smaller variants of a failing case.
type Shrinker interface {
	Shrink(c json.RawMessage) []any
}

// ChildRunner is optional: properties that isolate crashes in a child process
// implement Child, invoked as `mxh child Cxx args...`.
type ChildRunner interface {
	Child(args []string)
}

var props = map[string]Prop{}

func register(id string, p Prop) { props[id] = p }

var initOnce sync.Once

// initMurex initialises the in-process murex environment once.
func initMurex() {
	initOnce.Do(func() {
		lang.InitEnv()
		defaults.Config(lang.ShellProcess.Config, false)
		if docs.Definition == nil {
			// murex's package main installs the embedded-docs lookup in an init(); the harness is a
			// different main package, so without this `murex-docs x` would call a nil function here
			// (a harness artefact, not murex behaviour). An empty lookup = "no documentation found".
			docs.Definition = func(string) []byte { return nil }
		}
	})
}

func die(f string, a ...any) {
	fmt.Fprintf(os.Stderr, f+"\n", a...)
	os.Exit(2)
}

func main() {
	if len(os.Args) < 2 {
		die("usage: mxh gen|run|shrink|child|list ...")
	}
	cmd := os.Args[1]
	if cmd == "list" {
		ids := []string{}
		for k := range props {
			ids = append(ids, k)
		}
		sort.Strings(ids)
		for _, k := range ids {
			fmt.Println(k)
		}
		return
	}
	if len(os.Args) < 3 {
		die("missing property id")
	}
	id := os.Args[2]
	p, ok := props[id]
	if !ok {
		die("unknown property %s", id)
	}
	out := bufio.NewWriterSize(os.Stdout, 1<<20)
	defer out.Flush()
	enc := json.NewEncoder(out)
	enc.SetEscapeHTML(false)

	switch cmd {
	case "gen":
		fs := flag.NewFlagSet("gen", flag.ExitOnError)
		seed := fs.Int64("seed", 1, "PRNG seed")
		tier := fs.String("tier", "quick", "quick|thorough")
		fs.Parse(os.Args[3:])
		p.Gen(*seed, *tier, func(c any) {
			if err := enc.Encode(c); err != nil {
				die("encode: %v", err)
			}
		})
	case "run":
		sc := bufio.NewScanner(os.Stdin)
		sc.Buffer(make([]byte, 1<<20), 1<<28)
		i := 0
		for sc.Scan() {
			line := append([]byte(nil), sc.Bytes()...)
			if len(line) == 0 {
				continue
			}
			r := p.Run(json.RawMessage(line))
			rec := map[string]any{"i": i, "case": json.RawMessage(line), "obs": r.Obs, "coq": r.Coq,
				"nontrivial": r.Nontrivial, "class": r.Class}
			if err := enc.Encode(rec); err != nil {
				die("encode: %v", err)
			}
			i++
		}
		if err := sc.Err(); err != nil {
			die("read cases: %v", err)
		}
	case "shrink":
		s, ok := p.(Shrinker)
		if !ok {
			return
		}
		sc := bufio.NewScanner(os.Stdin)
		sc.Buffer(make([]byte, 1<<20), 1<<28)
		for sc.Scan() {
			if len(sc.Bytes()) == 0 {
				continue
			}
			for _, c := range s.Shrink(json.RawMessage(append([]byte(nil), sc.Bytes()...))) {
				enc.Encode(c)
			}
		}
	case "child":
		c, ok := p.(ChildRunner)
		if !ok {
			die("%s has no child mode", id)
		}
		out.Flush()
		c.Child(os.Args[3:])
	default:
		die("unknown sub-command %s", cmd)
	}
}
