//go:build prop_c15 || prop_all

package main

// C15 — Array streams round-trip and foreach visits each element once.
// A case is a data type and a list of elements.  The elements are written with
// the type's ArrayWriter (stdio.WriteArray), the bytes read back with ReadArray
// and ReadArrayWithType (callback sequences recorded), and fed to the real
// `foreach e { out "[$e]" }`, whose stdout tells which values the body saw.

import (
	"context"
	"encoding/json"
	"fmt"
	"math/rand"
	"strings"
	"time"

	"github.com/lmorg/murex/builtins/pipes/streams"

	"verifharness/coqlit"
)

type c15Case struct {
	Ty    string   `json:"ty"` // str generic json jsonl | yaml paths path xml
	In    []bstr   `json:"in"`
	Legal bool     `json:"legal"` // generator's claim (only used for the "other" types)
}

type c15Obs struct {
	WErr  bool     `json:"werr"`
	Read  []bstr   `json:"read"`
	RErr  bool     `json:"rerr"`
	Typed bool     `json:"typed"`
	Each  []bstr   `json:"each"`
	Note  string   `json:"note,omitempty"` // diagnostics only
}

type c15 struct{}

func init() { register("C15", c15{}) }

var c15Dt = map[string]string{"str": "str", "generic": "*", "json": "json", "jsonl": "jsonl",
	"yaml": "yaml", "paths": "paths", "path": "path", "xml": "xml"}
var c15Coq = map[string]string{"str": "TStr", "generic": "TGeneric", "json": "TJson", "jsonl": "TJsonl",
	"yaml": "TYaml", "paths": "TPaths", "path": "(TOther 3)", "xml": "(TOther 4)"}
var c15Main = []string{"str", "generic", "json", "jsonl", "yaml", "paths"}

// ---- rendering of (possibly long) elements as list chunk ----
func c15Chunks(s string) string {
	var parts []string
	lit := 0
	flush := func(upto int) {
		if upto > lit {
			parts = append(parts, coqlit.App("Lit", coqlit.Bytes(s[lit:upto])))
		}
	}
	for i := 0; i < len(s); {
		j := i
		for j < len(s) && s[j] == s[i] {
			j++
		}
		if j-i >= 24 {
			flush(i)
			parts = append(parts, coqlit.App("Rep", coqlit.N(uint64(s[i])), coqlit.N(uint64(j-i))))
			lit = j
		}
		i = j
	}
	flush(len(s))
	return coqlit.List(parts)
}

func c15ChunkList(xs []string) string {
	e := make([]string, len(xs))
	for i, x := range xs {
		e[i] = c15Chunks(x)
	}
	return coqlit.List(e)
}

// ---- alphabets ----
var c15Plain = []string{"a", "b", "c", "A", "Z", "0", "1", "7", "x", "y"}
var c15Ascii = []string{"a", "b", "A", "0", "1", " ", "\"", "\\", "'", "[", "]", "{", "}", ",", ":", "$", "@", "<", ">",
	"&", "%", "#", "~", "*", "(", ")", "|", ";", "=", "`", "!", "?", "/", "_", "-", ".", "\x01", "\x7f", "\x1b"}
var c15Multi = []string{"é", "ß", "€", "世", "😀", "�", " ", " ", " ", " ", "　", "\u0085"}
var c15Invalid = []string{"\xff", "\xc3", "\x80", "\xe2\x82", "\xf0\x9f"}
var c15Docs = []string{`"a"`, `"b c"`, `1`, `-2.5`, `true`, `null`, `[1,2]`, `[]`, `{"a": 1}`, `{"k":"v","n":[1,"x"]}`, `"é"`, `"\u00e9"`, `""`, `{}`}
var c15Spaces = []string{" ", "\t", "\r", "\v", "\f", " ", " ", "\u0085", "　"}

func c15IsSpaceEnd(s string) bool {
	return len(s) > 0 && strings.TrimSpace(s) != s
}

// c15Alphabet returns the pieces elements of the type are drawn from (legal inside an element).
func c15Alphabet(ty string, rng *rand.Rand) []string {
	if rng.Intn(4) == 0 {
		return c15Plain
	}
	al := append(append([]string{}, c15Ascii...), c15Multi...)
	switch ty {
	case "str", "jsonl":
		al = append(al, c15Invalid...)
		al = append(al, "\t", "\r", "\v", "\f")
	case "generic":
		al = append(al, "\xc3", "\x80", "\xe2\x82", "\r", "\xff")
	case "json", "yaml":
		al = append(al, "\t", "\r", "\v", "\f")
	case "paths":
		al = append(al, c15Invalid...)
		al = append(al, "\t", "\r", "\v", "\f", "/", "/usr/bin", ".")
	}
	return al
}

func c15Elem(rng *rand.Rand, ty string, al []string, allowBig bool) string {
	var s string
	switch r := rng.Intn(40); {
	case r < 26:
		s = arrPick(rng, al, 1+rng.Intn(5))
	case r < 36:
		s = arrPick(rng, al, 5+rng.Intn(30))
	case r < 39 || !allowBig:
		s = arrPick(rng, al, 2) + strings.Repeat(al[rng.Intn(len(al))][:1], 100+rng.Intn(3000)) + arrPick(rng, al, 2)
	default: // up to 60 KiB
		s = arrPick(rng, al, 3) + strings.Repeat("x", 1024*(1+rng.Intn(59))+rng.Intn(1024)) + arrPick(rng, al, 3)
	}
	return c15MakeLegal(ty, s)
}

// c15MakeLegal repairs an element so that it is inside the type's legal alphabet.
func c15MakeLegal(ty, s string) string {
	s = strings.ReplaceAll(s, "\n", "")
	switch ty {
	case "str", "jsonl":
		if c15IsSpaceEnd(s) {
			s = "x" + s + "x"
		}
	case "generic":
		s = strings.NewReplacer("\t", "", "\v", "", "\f", "").Replace(s)
		if strings.HasSuffix(s, "\r") {
			s += "x"
		}
	case "json", "yaml":
		s = strings.ToValidUTF8(s, "")
		if strings.HasSuffix(s, "\r") {
			s += "x"
		}
	case "paths":
		s = strings.ReplaceAll(s, ":", "")
		if strings.HasSuffix(s, "\r") {
			s += "x"
		}
	}
	return s
}

func c15ListLen(rng *rand.Rand) int {
	switch r := rng.Intn(12); {
	case r == 0:
		return 0
	case r == 1:
		return 1
	case r < 9:
		return 2 + rng.Intn(8)
	default:
		return 10 + rng.Intn(41)
	}
}

func (c15) Gen(seed int64, tier string, emit func(any)) {
	big := strings.Repeat("x", 65535)
	for _, ty := range c15Main {
		for _, in := range [][]string{{}, {"a"}, {"a", "b c", "d"}, {"b", "a", "b"}, {"é€", "😀"}, {"[1,2]", "{\"a\":1}", "\"q\""}, {"\"x\"", "", "\"y\""},
			{"0", "1", "true", "null"}, {big}, {"a", big, "b"}, {big[:65534] + "é"[:1]}} {
			emit(c15Case{Ty: ty, In: bstrs(in), Legal: true})
		}
		// F15: empty elements (foreach skips them)
		for _, in := range [][]string{{""}, {"x", "", "y"}, {"", "", "a"}, {"a", ""}} {
			emit(c15Case{Ty: ty, In: bstrs(in), Legal: true})
		}
		// outside the legal alphabet: the model must still predict the implementation
		for _, in := range [][]string{{" a"}, {"a "}, {"\ta\t", "b"}, {"a\r"}, {"a\nb"}, {"a", "\n", "b"}, {" "}, {"a "}, {" a"},
			{big + "x"}, {"a", big + "xy", "b"}, {"\xff"}, {"a\xc3"}, {"\xe2\x82", "ok"}} {
			if (ty == "json" || ty == "yaml" || ty == "paths") && strings.Contains(strings.Join(in, ""), "\n") {
				continue // a multi-line json element makes the foreach output ambiguous
			}
			emit(c15Case{Ty: ty, In: bstrs(in), Legal: false})
		}
	}
	emit(c15Case{Ty: "generic", In: bstrs([]string{"a\tb"}), Legal: false})
	emit(c15Case{Ty: "generic", In: bstrs([]string{"a\vb", "c"}), Legal: false})
	emit(c15Case{Ty: "generic", In: bstrs([]string{"a\fb", "c"}), Legal: false})
	emit(c15Case{Ty: "generic", In: bstrs([]string{"a\xffb", "c\td"}), Legal: false})
	emit(c15Case{Ty: "generic", In: bstrs([]string{"a\xffb", "c", "d\xff"}), Legal: true})
	emit(c15Case{Ty: "generic", In: bstrs([]string{"a\f", "\fb", "\f"}), Legal: true})
	emit(c15Case{Ty: "generic", In: bstrs([]string{"a\xff", "b\fc"}), Legal: true})
	emit(c15Case{Ty: "yaml", In: bstrs([]string{"", "1", "true", "null", "~", "a: b", "- c", "#d", " a ", "'", "\"q\"", "[1]", "{a}", "*x", "&y", "!t", "yes", "0x10", "2001-01-01", ":", "-", "?", "|", ">"}), Legal: true})
	emit(c15Case{Ty: "yaml", In: bstrs([]string{"a\xffb"}), Legal: false})
	emit(c15Case{Ty: "paths", In: bstrs([]string{"/usr/bin", "/bin", ".", ""}), Legal: true})
	emit(c15Case{Ty: "paths", In: bstrs([]string{"a:b", "c"}), Legal: false})
	for _, ty := range []string{"path", "xml"} {
		emit(c15Case{Ty: ty, In: bstrs([]string{"a"}), Legal: true})
		emit(c15Case{Ty: ty, In: bstrs([]string{"alpha", "beta", "gamma"}), Legal: true})
	}

	rng := rand.New(rand.NewSource(seed))
	n := 700
	if tier == "thorough" {
		n = 4000
	}
	for i := 0; i < n; i++ {
		r := rng.Intn(100)
		switch {
		case r < 3: // other registered types, conservative alphabet
			ty := []string{"path", "xml"}[rng.Intn(2)]
			k := 1 + rng.Intn(8)
			in := make([]string, k)
			for j := range in {
				in[j] = "w" + arrPick(rng, []string{"a", "b", "c", "d", "e", "k", "m", "z"}, 1+rng.Intn(6))
			}
			emit(c15Case{Ty: ty, In: bstrs(in), Legal: true})
		case r < 16: // outside the legal alphabet
			ty := c15Main[rng.Intn(len(c15Main))]
			al := c15Alphabet(ty, rng)
			k := 1 + rng.Intn(6)
			in := make([]string, k)
			for j := range in {
				in[j] = c15Elem(rng, ty, al, false)
			}
			j := rng.Intn(k)
			sp := c15Spaces[rng.Intn(len(c15Spaces))]
			switch rng.Intn(5) {
			case 0:
				in[j] = sp + in[j]
			case 1:
				in[j] = in[j] + sp
			case 2:
				in[j] = in[j] + "\n" + arrPick(rng, c15Plain, rng.Intn(3))
			case 3:
				in[j] = in[j] + c15Invalid[rng.Intn(len(c15Invalid))]
			case 4:
				in[j] = sp + sp + in[j] + sp
			}
			if ty == "json" || ty == "yaml" || ty == "paths" { // multi-line elements would make the foreach output ambiguous
				in[j] = strings.ReplaceAll(in[j], "\n", "")
			}
			emit(c15Case{Ty: ty, In: bstrs(in), Legal: false})
		default:
			ty := c15Main[rng.Intn(len(c15Main))]
			al := c15Alphabet(ty, rng)
			docs := ty == "jsonl" && rng.Intn(3) != 0
			k := c15ListLen(rng)
			in := make([]string, k)
			total := 0
			withEmpty := rng.Intn(8) == 0
			for j := range in {
				if withEmpty && rng.Intn(3) == 0 {
					continue // ""
				}
				in[j] = c15Elem(rng, ty, al, total < 600000)
				if docs {
					in[j] = c15Docs[rng.Intn(len(c15Docs))]
				}
				if in[j] == "" {
					in[j] = "x"
				}
				total += len(in[j])
			}
			if ty == "generic" && k > 0 && rng.Intn(10) == 0 {
				j := rng.Intn(k)
				in[j] = in[j] + "\f" + arrPick(rng, c15Plain, rng.Intn(3))
			}
			emit(c15Case{Ty: ty, In: bstrs(in), Legal: true})
		}
	}
}

func c15Write(dt string, xs []string) ([]byte, bool, string) {
	out := streams.NewStdin()
	aw, err := out.WriteArray(dt)
	if err != nil {
		return nil, true, err.Error()
	}
	werr := false
	note := ""
	for i, x := range xs {
		if i%2 == 0 {
			err = aw.Write([]byte(x))
		} else {
			err = aw.WriteString(x)
		}
		if err != nil {
			werr, note = true, err.Error()
		}
	}
	if err = aw.Close(); err != nil {
		werr, note = true, err.Error()
	}
	b, _ := out.ReadAll()
	return b, werr, note
}

func c15Str(v any) (string, bool) {
	switch t := v.(type) {
	case string:
		return t, true
	case []byte:
		return string(t), true
	}
	return fmt.Sprint(v), false
}

func (c15) Run(raw json.RawMessage) Result {
	var c c15Case
	if err := json.Unmarshal(raw, &c); err != nil {
		die("C15: bad case: %v", err)
	}
	initMurex()
	dt := c15Dt[c.Ty]
	if dt == "" {
		die("C15: bad type %q", c.Ty)
	}
	var o c15Obs
	var b []byte
	cin := unbstrs(c.In)
	b, o.WErr, o.Note = c15Write(dt, cin)
	var oRead, oEach []string

	ctx, cancel := context.WithTimeout(context.Background(), 30*time.Second)
	defer cancel()
	in := streams.NewStdin()
	in.SetDataType(dt)
	in.Write(b)
	oRead = []string{}
	if err := in.ReadArray(ctx, func(e []byte) { oRead = append(oRead, string(e)) }); err != nil {
		o.RErr = true
		o.Note += " read: " + err.Error()
	}
	in2 := streams.NewStdin()
	in2.SetDataType(dt)
	in2.Write(b)
	var typed []string
	o.Typed = true
	err2 := in2.ReadArrayWithType(ctx, func(v any, _ string) {
		s, ok := c15Str(v)
		if !ok {
			o.Typed = false
		}
		typed = append(typed, s)
	})
	if (err2 != nil) != o.RErr || len(typed) != len(oRead) {
		o.Typed = false
	} else {
		for i := range typed {
			if typed[i] != oRead[i] {
				o.Typed = false
			}
		}
	}

	// foreach over the same bytes
	oEach = []string{}
	r := arrCallBuiltin("foreach", false, dt, b, []string{"e", `{ out "[$e]" }`}, 60*time.Second)
	switch {
	case r.Panic || r.Timeout:
		oEach = []string{"<panic-or-timeout>"}
		o.Note += " foreach: " + r.Msg
	default:
		s := string(r.Stdout)
		if s != "" {
			if !strings.HasSuffix(s, "]\n") {
				oEach = []string{"<unparsable>"}
				o.Note += fmt.Sprintf(" foreach stdout %q", s)
			} else {
				for _, l := range strings.Split(s[:len(s)-1], "\n") {
					if len(l) < 2 || l[0] != '[' || l[len(l)-1] != ']' {
						oEach = append(oEach, "<unparsable>"+l)
						continue
					}
					oEach = append(oEach, l[1:len(l)-1])
				}
			}
		}
		if r.Err {
			o.Note += " foreach err: " + r.Msg
		}
	}

	docs := true
	for _, e := range oRead {
		if e != "" && !json.Valid([]byte(e)) {
			docs = false
		}
	}
	coq := coqlit.Record("c_ty", c15Coq[c.Ty], "c_in", c15ChunkList(cin), "c_legal_other", coqlit.Bool(c.Legal),
		"c_docs", coqlit.Bool(docs),
		"c_obs", coqlit.Record("o_werr", coqlit.Bool(o.WErr), "o_read", c15ChunkList(oRead), "o_rerr", coqlit.Bool(o.RErr),
			"o_typed", coqlit.Bool(o.Typed), "o_each", c15ChunkList(oEach)))
	// keep the evidence small
	short := func(xs []string) []string {
		out := make([]string, len(xs))
		for i, x := range xs {
			if len(x) > 80 {
				x = fmt.Sprintf("%s…(%d bytes)", x[:40], len(x))
			}
			out[i] = x
		}
		return out
	}
	o.Read, o.Each = bstrs(short(oRead)), bstrs(short(oEach))
	size := "0"
	switch {
	case len(c.In) == 1:
		size = "1"
	case len(c.In) > 1 && len(c.In) < 10:
		size = "2-9"
	case len(c.In) >= 10:
		size = "10+"
	}
	cls := c.Ty + "/" + size
	if !c.Legal {
		cls = c.Ty + "/illegal"
	}
	return Result{Obs: o, Coq: coq, Nontrivial: len(c.In) >= 2 && c.Legal, Class: cls}
}

func (c15) Shrink(raw json.RawMessage) []any {
	var c c15Case
	if json.Unmarshal(raw, &c) != nil {
		return nil
	}
	var out []any
	for i := range c.In {
		d := c
		d.In = append(append([]bstr{}, c.In[:i]...), c.In[i+1:]...)
		out = append(out, d)
	}
	for i, e := range c.In {
		if len(e) > 1 {
			d := c
			d.In = append([]bstr{}, c.In...)
			d.In[i] = e[:len(e)/2]
			if c.Ty == "json" {
				d.In[i] = bstr(strings.ToValidUTF8(string(d.In[i]), ""))
			}
			out = append(out, d)
		}
	}
	return out
}
