//go:build prop_c20 || prop_c34 || prop_c37 || prop_all

package main

// Shared by C20, C34 and C37: running utils/parser.Parse on a rune string,
// the projected observation, and the generators of murex-looking rune strings.

import (
	"encoding/json"
	"fmt"
	"math/rand"
	"regexp"
	"strconv"
	"strings"

	"github.com/lmorg/murex/utils/parser"
)

// tokCase: a rune string (as numbers: JSON strings cannot carry surrogates or
// invalid code points) and the pos argument of parser.Parse.
type tokCase struct {
	R   []int32 `json:"r"`
	Pos int     `json:"pos"`
	Txt string  `json:"txt,omitempty"` // for the reader only; never parsed
}

func tokMk(s []rune, pos int) tokCase {
	r := make([]int32, len(s))
	for i, c := range s {
		r[i] = int32(c)
	}
	return tokCase{R: r, Pos: pos, Txt: strconv.QuoteToASCII(string(s))}
}

func (c tokCase) runes() []rune {
	s := make([]rune, len(c.R))
	for i, x := range c.R {
		s[i] = rune(x)
	}
	return s
}

// tokObs: what parser.Parse returned.
type tokObs struct {
	Panic bool   `json:"panic"`
	PanicMsg string `json:"panic_msg,omitempty"`
	Hl    string `json:"hl"`
	Pt    *parser.ParsedTokens `json:"-"`
	// projected fields (for the evidence file)
	Unsafe        bool   `json:"unsafe"`
	FuncName      string `json:"func"`
	ExpectFunc    bool   `json:"expect_func"`
	LastFlowToken int    `json:"last_flow"`
}

func tokParse(src []rune, pos int) (o tokObs) {
	defer func() {
		if r := recover(); r != nil {
			o.Panic = true
			o.PanicMsg = fmt.Sprint(r)
		}
	}()
	// Parse keeps a reference to its argument in pt.Source: give it a private copy
	cp := append([]rune(nil), src...)
	pt, hl := parser.Parse(cp, pos)
	o.Hl = hl
	o.Pt = &pt
	o.Unsafe, o.FuncName, o.ExpectFunc, o.LastFlowToken = pt.Unsafe, pt.FuncName, pt.ExpectFunc, pt.LastFlowToken
	return
}

var tokRxAnsi = regexp.MustCompile("\x1b\\[[0-9;]*m")

func tokStrip(s string) string { return tokRxAnsi.ReplaceAllString(s, "") }

// tokRunes renders runes as a Coq list N.
func tokRunes(s []rune) string {
	if len(s) == 0 {
		return "[]"
	}
	var b strings.Builder
	b.Grow(len(s)*5 + 2)
	b.WriteByte('[')
	for i, c := range s {
		if i > 0 {
			b.WriteByte(';')
		}
		if c < 0 {
			c = 0xFFFD // never generated
		}
		b.WriteString(strconv.Itoa(int(c)))
	}
	b.WriteByte(']')
	return b.String()
}

// ---------- generators ----------

// the characters the tokenizer's switch distinguishes (plus a letter, a digit,
// a tab and the var-name punctuation)
var tokAlphabet = []rune("a \\-=>|;$()'\"{}#:?&@<[]\n\t.1s")

// small alphabet for deeper exhaustive enumeration around the `->` / `=>` trim
var tokAlphabetSmall = []rune("a\\-=> |$")

// fragments of murex-looking text for structured random lines
var tokFragments = []string{
	"out", "echo", "get", "g", "et", "o", "s", "os", "a", "foo", "ma", "n-summary", "man-summary", "rm", "sh", "bg", "exec",
	"true", "false", "if", "try", "open", "format", "json", "cat", "[", "]", "[[", "]]", "![", "!", "=", "(", ")",
	" ", " ", " ", "  ", "\t", "\n", ":", ": ",
	"->", "=>", "|", ";", "&&", "||", "?:", "??", " ? ", "?", " >> ", ">>", "|>", "|>>", " |> ", ">", "<", "&", "-", "=",
	"\\", "\\-", "\\=", "\\>", "\\-\\>", "\\\\", "\\ ", "\\n", "\\s", "\\t", "\\r", "\\'", "\\\"", "\\$", "\\{", "\\|", "\\;", "\\#", "\\(",
	"'", "\"", "'a b'", "\"a $b\"", "(", ")", "(a b)", "((a))", "{", "}", "{ ", " }", "{}", "[", "]", "[0]", "[[ ", "<in>", "<!out>", "<",
	"$", "$a", "$a.b", "$(", "$(a b)", "${", "@", "@a", "@ ", "@(", "$a->", "$a=>", "$a-", "$.",
	"#", " # c", "/#", "#/", "é", "漢字", "🙂", "ß-", "-é", "%(", "%[", "%{", "~", "*", "0", "1", "_", ".",
}

func tokRandFragments(rng *rand.Rand, maxFrag int) []rune {
	n := 1 + rng.Intn(maxFrag)
	var b strings.Builder
	for i := 0; i < n; i++ {
		b.WriteString(tokFragments[rng.Intn(len(tokFragments))])
	}
	return []rune(b.String())
}

func tokRandAlphabet(rng *rand.Rand, maxLen int) []rune {
	n := rng.Intn(maxLen + 1)
	s := make([]rune, n)
	for i := range s {
		s[i] = tokAlphabet[rng.Intn(len(tokAlphabet))]
	}
	return s
}

// tokRandHostile: mostly alphabet, with code points that string(rune) treats
// specially (surrogates, > U+10FFFF), ESC, NUL, multi-byte runes.
func tokRandHostile(rng *rand.Rand, maxLen int) []rune {
	special := []rune{0, 27, 0x7f, 0x80, 0xff, 0xd7ff, 0xd800, 0xdfff, 0xe000, 0xfffd, 0x10ffff, 0x110000, 0x7fffffff, 'é', '漢'}
	n := 1 + rng.Intn(maxLen)
	s := make([]rune, n)
	for i := range s {
		if rng.Intn(4) == 0 {
			s[i] = special[rng.Intn(len(special))]
		} else {
			s[i] = tokAlphabet[rng.Intn(len(tokAlphabet))]
		}
	}
	return s
}

// tokExhaustive: every string over alpha of length 0..maxLen
func tokExhaustive(alpha []rune, maxLen int, f func([]rune)) {
	var rec func(prefix []rune)
	rec = func(prefix []rune) {
		f(append([]rune(nil), prefix...))
		if len(prefix) == maxLen {
			return
		}
		for _, c := range alpha {
			rec(append(prefix, c))
		}
	}
	rec(nil)
}

// tokClass: distribution bucket for the evidence
func tokClass(s []rune) string {
	str := string(s)
	switch {
	case strings.Contains(str, "\\->") || strings.Contains(str, "\\=>"):
		return "escaped-arrow"
	case strings.Contains(str, "->") || strings.Contains(str, "=>"):
		return "arrow"
	case strings.ContainsAny(str, "|;&?\n"):
		return "flow"
	case strings.ContainsAny(str, "'\"(){}$@\\#"):
		return "quoting"
	case len(s) == 0:
		return "empty"
	}
	return "plain"
}

// tokShrink: smaller variants of a rune-string case (halves, one rune removed)
func tokShrink(raw json.RawMessage) []any {
	var c tokCase
	if json.Unmarshal(raw, &c) != nil {
		return nil
	}
	s := c.runes()
	var out []any
	if len(s) > 3 {
		out = append(out, tokMk(s[:len(s)/2], 0), tokMk(s[len(s)/2:], 0))
	}
	for i := range s {
		t := append(append([]rune(nil), s[:i]...), s[i+1:]...)
		out = append(out, tokMk(t, 0))
	}
	return out
}
