//go:build prop_c09 || prop_all

package main

// C09 — Quoted string literals evaluate to exactly their contents.
// A string is encoded with the single-quote, double-quote or brace-quote
// encoder and parsed by murex as a statement argument (`f <lit>`: ParseBlock +
// StatementParametersParser, and for a share of the cases a real function call
// reading $PARAMS) and as an expression value (`v = <lit>`: ParseBlock +
// ExecuteExpr, then the variable is read back). A second stream feeds raw
// (not encoder-made) literals to compare model and implementation only.

import (
	"encoding/json"
	"math/rand"
	"strings"
	"unicode"

	"verifharness/coqlit"
)

type c09Case struct {
	Kind string   `json:"kind"` // single | double | brace
	S    string   `json:"s"`    // contents (enc) or the whole literal (raw)
	Enc  bool     `json:"enc"`
	Ws   bool     `json:"ws,omitempty"`
	Vars []c0xVar `json:"vars,omitempty"`
	E2E  bool     `json:"e2e,omitempty"`
}

type c09Obs struct {
	Lit     string    `json:"lit"`
	Stmt    *[]string `json:"stmt"`
	Expr    *string   `json:"expr"`
	E2E     string    `json:"e2e"`
	StmtErr string    `json:"stmt_err,omitempty"`
	ExprErr string    `json:"expr_err,omitempty"`
}

type c09 struct{}

func init() { register("C09", c09{}) }

func c09EncDouble(s string, ws bool) string {
	var b strings.Builder
	b.WriteByte('"')
	for i := 0; i < len(s); i++ {
		c := s[i]
		switch {
		case c == '\\' || c == '"' || c == '$' || c == '~':
			b.WriteByte('\\')
			b.WriteByte(c)
		case ws && c == ' ':
			b.WriteString(`\s`)
		case ws && c == '\t':
			b.WriteString(`\t`)
		case ws && c == '\r':
			b.WriteString(`\r`)
		case ws && c == '\n':
			b.WriteString(`\n`)
		default:
			b.WriteByte(c)
		}
	}
	b.WriteByte('"')
	return b.String()
}

func c09Encode(kind, s string, ws bool) string {
	switch kind {
	case "single":
		return "'" + s + "'"
	case "double":
		return c09EncDouble(s, ws)
	default:
		return "%(" + s + ")"
	}
}

// c09IntoDomain edits s so that it lies in the encoder's domain.
func c09IntoDomain(kind, s string) string {
	switch kind {
	case "single":
		return strings.ReplaceAll(s, "'", "")
	case "brace":
		s = strings.NewReplacer("$", "", "~", "").Replace(s)
		var b strings.Builder
		depth := 0
		for _, r := range s {
			switch r {
			case '(':
				depth++
			case ')':
				if depth == 0 {
					continue
				}
				depth--
			}
			b.WriteRune(r)
		}
		return b.String() + strings.Repeat(")", depth)
	}
	return s
}

var c09Kinds = []string{"single", "double", "brace"}

var c09Small = []string{"a", "'", "\"", "\\", "$", "~", "(", ")", "{", "}", " ", "\n", "#", ";", "s"}

func (c09) Gen(seed int64, tier string, emit func(any)) {
	// design-phase and development witnesses
	emit(c09Case{Kind: "brace", S: "a{BLUE}b", Enc: true, E2E: true})
	emit(c09Case{Kind: "double", S: "a\"b", Enc: true, E2E: true})
	emit(c09Case{Kind: "double", S: "a\";out INJ;\"d", Enc: true, E2E: true})
	emit(c09Case{Kind: "double", S: "c\\", Enc: true, E2E: true})
	emit(c09Case{Kind: "brace", S: "", Enc: true, E2E: true})
	emit(c09Case{Kind: "single", S: "", Enc: true, E2E: true})
	emit(c09Case{Kind: "double", S: "", Enc: true, E2E: true})
	emit(c09Case{Kind: "brace", S: "a({BLUE})b", Enc: true})
	emit(c09Case{Kind: "brace", S: "x(y(z)(w))({q", Enc: true})

	// exhaustive: every string of length <= 2 over a small alphabet, in every encoder's domain
	seen := map[string]bool{}
	for _, k := range c09Kinds {
		var all []string
		all = append(all, c09Small...)
		for _, a := range c09Small {
			for _, b := range c09Small {
				all = append(all, a+b)
			}
		}
		for _, s := range all {
			s = c09IntoDomain(k, s)
			key := k + "\x00" + s
			if seen[key] {
				continue
			}
			seen[key] = true
			emit(c09Case{Kind: k, S: s, Enc: true, Ws: len(s)%2 == 1})
		}
	}

	r := rand.New(rand.NewSource(seed))
	n := 500
	if tier == "thorough" {
		n = 8000
	}
	// encoded strings
	for i := 0; i < n; i++ {
		k := c09Kinds[r.Intn(3)]
		maxLen := 12
		if r.Intn(10) == 0 {
			maxLen = 120
		}
		s := c09IntoDomain(k, c0xRandString(r, maxLen, 6))
		emit(c09Case{Kind: k, S: s, Enc: true, Ws: r.Intn(2) == 0, E2E: i%8 == 0})
	}
	// raw literals: model vs implementation only
	vars := []c0xVar{{"x", "va l;ue"}, {"y", ""}, {"z", "t\n"}}
	for i := 0; i < n/2; i++ {
		k := c09Kinds[r.Intn(3)]
		body := c0xRandString(r, 10, 3)
		var lit string
		switch k {
		case "single":
			lit = "'" + body + "'"
		case "double":
			lit = "\"" + body + "\""
		default:
			lit = "%(" + body + ")"
		}
		emit(c09Case{Kind: k, S: lit, Enc: false, Vars: vars})
	}
}

func c09Nontrivial(s string) bool {
	for _, r := range s {
		if !unicode.IsLetter(r) && !unicode.IsDigit(r) {
			return true
		}
	}
	return false
}

func (c09) Run(raw json.RawMessage) Result {
	var c c09Case
	if err := json.Unmarshal(raw, &c); err != nil {
		die("C09: bad case: %v", err)
	}
	lit := c.S
	if c.Enc {
		lit = c09Encode(c.Kind, c.S, c.Ws)
	}
	fork, view := c0xFork(c.Vars, nil)
	p := fork.Process

	var o c09Obs
	o.Lit = lit
	block := "f " + lit
	st := c0xParse(block, p)
	stmtOK := st.Kind == 0 && st.NFuncs == 1 && !st.IsExpr && st.RawLen == len(block) && st.Cmd == "f"
	if stmtOK {
		ps := st.Params
		o.Stmt = &ps
	} else {
		o.StmtErr = st.ErrText
	}
	val, kind, errText := c0xAssign("v", lit, p)
	if kind == 0 {
		o.Expr = &val
	} else {
		o.ExprErr = errText
	}
	e2e := true
	o.E2E = "not run"
	if c.E2E && c.Enc {
		ps, ok := c0xParams("", lit)
		switch {
		case ok && stmtOK:
			e2e = strings.Join(ps, "\x00") == strings.Join(st.Params, "\x00") && len(ps) == len(st.Params)
		case !ok && !stmtOK:
			e2e = true
		default:
			e2e = false
		}
		if c0xTimedOut {
			c0xTimedOut = false
			e2e = true
			o.E2E = "timeout (not counted)"
		} else if e2e {
			o.E2E = "agrees"
		} else {
			o.E2E = "differs"
		}
	}

	kindCoq := map[string]string{"single": "QSingle", "double": "QDouble", "brace": "QBrace"}[c.Kind]
	if kindCoq == "" {
		die("C09: bad kind %q", c.Kind)
	}
	str := c.S
	if !c.Enc {
		str = ""
	}
	var stmtCoq, exprCoq string
	if o.Stmt != nil {
		stmtCoq = c0xOptBytesList(true, *o.Stmt)
	} else {
		stmtCoq = "None"
	}
	if o.Expr != nil {
		exprCoq = coqlit.Option(true, coqlit.Bytes(*o.Expr))
	} else {
		exprCoq = "None"
	}
	coq := coqlit.Record(
		"k_kind", kindCoq,
		"k_str", coqlit.Bytes(str),
		"k_encoded", coqlit.Bool(c.Enc),
		"k_ws", coqlit.Bool(c.Ws),
		"k_lit", coqlit.Bytes(lit),
		"k_env", c0xCoqEnv(view, nil),
		"k_home", coqlit.Bytes(c0xHome()),
		"k_nocolour", coqlit.Bool(c0xNoColour()),
		"k_stmt", stmtCoq,
		"k_expr", exprCoq,
		"k_e2e", coqlit.Bool(e2e),
	)
	class := c.Kind + "/raw"
	if c.Enc {
		class = c.Kind + "/enc"
	}
	return Result{Obs: o, Coq: coq, Nontrivial: c.Enc && c09Nontrivial(c.S), Class: class}
}

// Shrink: delete one rune (and stay inside the encoder's domain).
func (c09) Shrink(raw json.RawMessage) []any {
	var c c09Case
	if json.Unmarshal(raw, &c) != nil || !c.Enc {
		return nil
	}
	rs := []rune(c.S)
	var out []any
	seen := map[string]bool{c.S: true}
	for i := range rs {
		s := c09IntoDomain(c.Kind, string(rs[:i])+string(rs[i+1:]))
		if !seen[s] && len(s) < len(c.S) {
			seen[s] = true
			out = append(out, c09Case{Kind: c.Kind, S: s, Enc: true, Ws: c.Ws, E2E: c.E2E})
		}
	}
	return out
}
