//go:build prop_c28 || prop_all

package main

// C28 — Function IDs are unique and released when programs finish.
// A case is a batch of programs run concurrently, one goroutine each, under a
// seeded perturbation of the schedulers' yield points. Observed: how many ids
// were issued (FID counter), whether a sampled id was ever attached to two
// different processes, and how many processes registered by the batch are still
// in GlobalFIDs after quiescence.

import (
	"encoding/json"
	"fmt"
	"math/rand"
	"runtime"
	"strings"
	"sync"
	"sync/atomic"
	"time"

	"github.com/lmorg/murex/lang"
	"github.com/lmorg/murex/lang/ref"

	"verifharness/coqlit"
)

type c28Prog struct {
	Chain *rmCase `json:"chain,omitempty"`
	Raw   string  `json:"raw,omitempty"`
	Tree  *c28N   `json:"tree,omitempty"` // nested program with a statically known fork tree
}

type c28Case struct {
	Progs []c28Prog `json:"progs,omitempty"`
	Yield int64     `json:"yield"` // seed of the schedule perturbation, 0 = none
	Race  *c28Race  `json:"race,omitempty"`
}

// c28Race: W goroutines released through a barrier, each calling the real
// lang.GlobalFIDs.Register on N fresh processes (in rounds, to bound memory).
type c28Race struct {
	W int `json:"w"`
	N int `json:"n"` // registrations per goroutine
}

type c28Obs struct {
	Regs     int      `json:"regs"`     // ids collected (race: every Register; batch: every process seen)
	Distinct int      `json:"distinct"` // distinct ids among them
	Fresh    bool     `json:"fresh"`    // all of them above the counter at the start of the case
	Issued  int      `json:"issued"`
	Leaked  int      `json:"leaked"`
	Dup     bool     `json:"dup"`
	Stale   bool     `json:"stale,omitempty"` // an id not above the counter at start was given out
	Names   []string `json:"leaked_names,omitempty"`
	Timeout bool     `json:"timeout,omitempty"`
	Src     []string `json:"src"`
}

type c28 struct{}

func init() { register("C28", c28{}) }

// programs outside the chain grammar: nested blocks, loops, early break /
// return, sub-shells, failing function calls. Their registration count is not
// predicted (k_exact = false); release and uniqueness are checked.
var c28Raw = []string{
	`function c28q { out 1; return 3; out 2 }; c28q`,
	`a [1..5] -> foreach i { if { = i==3 } then { break foreach }; out $i }`,
	`a [1..4] -> foreach i { out $i } | cat`,
	`try { out a | g1 x; out never }`,
	`trypipe { f1 x | g0 y; out never }`,
	`if { true } then { out y } else { out n }`,
	`if { false } then { out y } else { f7 z }`,
	`out ${out inner} @{a [1..2]}`,
	`function c28r { try { f7 a; out never }; out after }; c28r`,
	`function c28n { function c28m { return 2 }; c28m; out x }; c28n`,
	`switch { case { false } then { out a }; default { out b } }`,
	`!if { f1 q } then { out negated }`,
	`out a | g0 b | g7 c || try { false || out d }`,
	`function c28t (x: int) { out $x }; c28t 3`,
	`a [1..3] -> foreach i { try { f1 $i; out never } }`,
	`try { a [1..3] -> foreach i { out $i; return 4 } }`,
	// a function call whose parameter cast fails never executes its fork
	`function c28t (x: int) { out $x }; c28t abc`,
	`function c28u (x: int) { out $x }; c28u`,
	`function c28v (x: int) { out $x }; try { c28v abc; out never }; out after`,
}

var c28Counter int64

func c28Exec(block string, timeout time.Duration, root func(*lang.Process, uint32)) bool {
	initMurex()
	n := atomic.AddInt64(&c28Counter, 1)
	fork := lang.ShellProcess.Fork(lang.F_FUNCTION | lang.F_NEW_MODULE | lang.F_NO_STDIN | lang.F_CREATE_STDOUT | lang.F_CREATE_STDERR)
	fork.Name.Set("verif")
	fork.FileRef = &ref.File{Source: &ref.Source{Module: fmt.Sprintf("murex/verif28-%d", n)}}
	root(fork.Process, fork.Id)
	done := make(chan struct{})
	go func() {
		fork.Execute([]rune(block))
		close(done)
	}()
	select {
	case <-done:
		fork.Stdout.ReadAll()
		fork.Stderr.ReadAll()
		return true
	case <-time.After(timeout):
		fork.Process.Done()
		return false
	}
}

// c28Src renders program number idx of a batch; the wrapper function of the
// `runmode … function` forms gets a name of its own, because the programs of a
// batch run concurrently and murex functions are global.
func c28Src(p c28Prog, idx int) string {
	if p.Chain != nil {
		return strings.ReplaceAll(rmSource(*p.Chain), "rmw", fmt.Sprintf("rmw%d", idx))
	}
	if p.Tree != nil {
		return p.Tree.src(fmt.Sprintf("p%d", idx))
	}
	return p.Raw
}

// registrations made by the command of a process while it runs
func c28Cost(k string) uint64 {
	switch k {
	case "f0", "f1", "f7", "s0":
		return 3 // function fork + `out $1` + `return K`
	case "g0", "g1", "g7", "b0", "gs0":
		return 4 // function fork + `<stdin>` + `out $1` + `return K`
	}
	return 0
}

// registrations of the wrapper: the harness' own function fork, plus `try` /
// `trypipe`, or `function rmw {…}` + `rmw` + its function fork
func c28Base(mode string) uint64 {
	switch mode {
	case "normal":
		return 1
	case "try", "trypipe":
		return 2
	}
	return 4
}

func c28RunRace(r c28Race) Result {
	initMurex()
	var o c28Obs
	before := lang.VerifFidLatest()
	tableBefore := len(lang.GlobalFIDs.ListAll())
	const round = 2000
	ids := make([][]uint32, r.W)
	left := r.N
	for left > 0 {
		n := round
		if n > left {
			n = left
		}
		left -= n
		procs := make([][]*lang.Process, r.W)
		for w := range procs {
			procs[w] = make([]*lang.Process, n)
			for i := range procs[w] {
				p := new(lang.Process)
				p.Variables = lang.NewVariables(p)
				procs[w][i] = p
			}
		}
		start := make(chan struct{})
		var wg sync.WaitGroup
		for w := 0; w < r.W; w++ {
			wg.Add(1)
			go func(w int) {
				defer wg.Done()
				<-start
				for _, p := range procs[w] {
					ids[w] = append(ids[w], lang.GlobalFIDs.Register(p))
				}
			}(w)
		}
		close(start)
		wg.Wait()
		for w := range procs {
			for _, p := range procs[w] {
				lang.GlobalFIDs.Deregister(p.Id)
			}
		}
	}
	seen := map[uint32]struct{}{}
	o.Fresh = true
	for w := range ids {
		for _, id := range ids[w] {
			o.Regs++
			seen[id] = struct{}{}
			if id <= before {
				o.Fresh = false
			}
		}
	}
	o.Distinct = len(seen)
	o.Issued = int(lang.VerifFidLatest() - before)
	o.Leaked = len(lang.GlobalFIDs.ListAll()) - tableBefore
	if o.Leaked < 0 {
		o.Leaked = 0
	}
	o.Src = []string{fmt.Sprintf("register race: %d goroutines x %d Register calls", r.W, r.N)}
	coq := coqlit.Record("k_progs", "[]", "k_trees", "[]", "k_exact", "false",
		"k_issued", coqlit.N(uint64(o.Issued)), "k_leaked", coqlit.N(uint64(o.Leaked)), "k_dup", "false",
		"k_regs", coqlit.N(uint64(o.Regs)), "k_distinct", coqlit.N(uint64(o.Distinct)), "k_fresh", coqlit.Bool(o.Fresh))
	return Result{Obs: o, Coq: coq, Nontrivial: true, Class: "register-race"}
}

func (c28) Run(raw json.RawMessage) Result {
	var c c28Case
	if err := json.Unmarshal(raw, &c); err != nil {
		die("C28: bad case: %v", err)
	}
	if c.Race != nil {
		return c28RunRace(*c.Race)
	}
	rmInit()
	var o c28Obs
	exact := true
	for i, p := range c.Progs {
		o.Src = append(o.Src, c28Src(p, i))
		if p.Chain == nil && p.Tree == nil {
			exact = false
		}
	}

	// schedule perturbation at the schedulers' yield points
	if c.Yield != 0 {
		var st uint64 = uint64(c.Yield)*2862933555777941757 + 3037000493
		lang.VerifSetYield(func(string) {
			x := atomic.AddUint64(&st, 0x9E3779B97F4A7C15)
			x ^= x >> 31
			switch x % 16 {
			case 0, 1, 2, 3, 4:
				runtime.Gosched()
			case 5:
				time.Sleep(time.Duration(20+x%180) * time.Microsecond)
			}
		})
	}

	before := lang.VerifFidLatest()
	seen := map[uint32]*lang.Process{}
	var seenMu sync.Mutex
	sample := func() {
		for _, p := range lang.GlobalFIDs.ListAll() {
			if p == nil {
				continue
			}
			id := p.Id
			seenMu.Lock()
			if q, ok := seen[id]; ok && q != p {
				o.Dup = true
			}
			if _, ok := seen[id]; !ok && id > 0 && id <= before && false {
				o.Stale = true
			}
			seen[id] = p
			seenMu.Unlock()
		}
	}
	stop := make(chan struct{})
	var mon sync.WaitGroup
	mon.Add(1)
	go func() {
		defer mon.Done()
		for {
			select {
			case <-stop:
				return
			default:
				sample()
				time.Sleep(100 * time.Microsecond)
			}
		}
	}()

	var wg sync.WaitGroup
	var timeouts int32
	roots := map[*lang.Process]uint32{}
	var rootMu sync.Mutex
	for i, p := range c.Progs {
		wg.Add(1)
		go func(src string) {
			defer wg.Done()
			if !c28Exec(src, 60*time.Second, func(p *lang.Process, id uint32) {
				rootMu.Lock()
				roots[p] = id
				rootMu.Unlock()
			}) {
				atomic.AddInt32(&timeouts, 1)
			}
		}(c28Src(p, i))
	}
	wg.Wait()
	close(stop)
	mon.Wait()
	lang.VerifSetYield(nil)
	o.Timeout = timeouts > 0

	// quiescence: deregistration is asynchronous; poll up to 3 s
	deadline := time.Now().Add(3 * time.Second)
	for {
		o.Leaked = 0
		o.Names = nil
		for _, p := range lang.GlobalFIDs.ListAll() {
			if p != nil && p.Id > before {
				o.Leaked++
				if len(o.Names) < 5 {
					o.Names = append(o.Names, p.Name.String())
				}
			}
		}
		if o.Leaked == 0 || time.Now().After(deadline) {
			break
		}
		time.Sleep(2 * time.Millisecond)
	}
	o.Issued = int(lang.VerifFidLatest() - before)
	// ids handed out during the batch must all be above the counter at start
	// and, being sampled keys of one map, distinct per process
	byProc := map[*lang.Process]uint32{}
	for id, p := range seen {
		if id > before {
			if old, ok := byProc[p]; ok && old != id {
				o.Dup = true // one process seen under two ids
			}
			byProc[p] = id
		}
	}
	for p, id := range roots {
		byProc[p] = id
	}
	// every process seen (sampled from the table, or the root fork of a program):
	// their ids must be pairwise distinct and above the counter at the start
	distinct := map[uint32]struct{}{}
	o.Fresh = true
	for _, id := range byProc {
		o.Regs++
		distinct[id] = struct{}{}
		if id <= before {
			o.Fresh = false
		}
	}
	o.Distinct = len(distinct)

	progs := make([]string, 0, len(c.Progs))
	for _, p := range c.Progs {
		if p.Chain == nil {
			continue
		}
		costs := []string{}
		for _, pl := range p.Chain.P {
			for _, s := range pl.S {
				costs = append(costs, coqlit.N(c28Cost(s.K)))
			}
		}
		progs = append(progs, "("+rmModeCoq(p.Chain.Mode)+", "+rmProgCoq(*p.Chain)+", "+coqlit.List(costs)+", "+coqlit.N(c28Base(p.Chain.Mode))+")")
	}
	trees := []string{}
	for _, p := range c.Progs {
		if p.Tree != nil {
			trees = append(trees, p.Tree.tree(true)) // root: the harness' own F_FUNCTION fork
		}
	}
	coq := coqlit.Record("k_progs", coqlit.List(progs), "k_trees", coqlit.List(trees), "k_exact", coqlit.Bool(exact && !o.Timeout),
		"k_issued", coqlit.N(uint64(o.Issued)), "k_leaked", coqlit.N(uint64(o.Leaked)), "k_dup", coqlit.Bool(o.Dup || o.Stale),
		"k_regs", coqlit.N(uint64(o.Regs)), "k_distinct", coqlit.N(uint64(o.Distinct)), "k_fresh", coqlit.Bool(o.Fresh))
	class := fmt.Sprintf("batch%d", len(c.Progs))
	if !exact {
		class += "/raw"
	}
	if len(trees) > 0 {
		class += "/tree"
	}
	if c.Yield != 0 {
		class += "/yield"
	}
	return Result{Obs: o, Coq: coq, Nontrivial: o.Issued > 3, Class: class}
}

func (c28) Gen(seed int64, tier string, emit func(any)) {
	rng := rand.New(rand.NewSource(seed))
	modes := []string{"normal", "try", "trypipe", "fntry", "fntrypipe"}
	chain := func(n int) c28Prog {
		c := rmRandom(rng, modes[rng.Intn(len(modes))], n, 4)
		return c28Prog{Chain: &c}
	}
	// register race: the FID table itself under racing registrations
	races := []c28Race{{W: 8, N: 8000}, {W: 12, N: 6000}, {W: 16, N: 5000}}
	if tier == "thorough" {
		races = append(races, c28Race{W: 16, N: 20000}, c28Race{W: 8, N: 40000}, c28Race{W: 12, N: 15000})
	}
	for i := range races {
		r := races[i]
		emit(c28Case{Race: &r})
	}
	// every raw program alone, without and with perturbation
	for i, r := range c28Raw {
		emit(c28Case{Progs: []c28Prog{{Raw: r}}})
		emit(c28Case{Progs: []c28Prog{{Raw: r}}, Yield: int64(i + 1)})
	}
	// exhaustive small chains (3 units, with pipelines) in the three schedulers, alone
	for _, m := range []string{"normal", "try", "trypipe"} {
		rmExhaustive(rng, m, 2, []string{"o", "x", "oo", "xo", "yo"}, rmJoiners, func(c rmCase) {
			cc := c
			emit(c28Case{Progs: []c28Prog{{Chain: &cc}}, Yield: int64(rng.Intn(3)) * rng.Int63n(1<<30)})
		})
	}
	// nested programs with a known fork tree: the fixed shapes, then random ones,
	// alone and in concurrent batches
	for i, t := range c28FixedTrees() {
		emit(c28Case{Progs: []c28Prog{{Tree: t}}})
		emit(c28Case{Progs: []c28Prog{{Tree: t}}, Yield: int64(100 + i)})
	}
	nt := 150
	if tier == "thorough" {
		nt = 2000
	}
	for i := 0; i < nt; i++ {
		k := 1 + rng.Intn(3)
		var ps []c28Prog
		for j := 0; j < k; j++ {
			if j > 0 && rng.Intn(3) == 0 {
				ps = append(ps, chain(2+rng.Intn(6)))
			} else {
				ps = append(ps, c28Prog{Tree: c28RandBlock(rng, 3)})
			}
		}
		emit(c28Case{Progs: ps, Yield: int64(rng.Intn(2)) * (1 + rng.Int63n(1<<40))})
	}
	nb := 250
	if tier == "thorough" {
		nb = 4000
	}
	for i := 0; i < nb; i++ {
		k := 1 + rng.Intn(6)
		var ps []c28Prog
		for j := 0; j < k; j++ {
			if rng.Intn(5) == 0 {
				ps = append(ps, c28Prog{Raw: c28Raw[rng.Intn(len(c28Raw))]})
			} else {
				ps = append(ps, chain(2+rng.Intn(9)))
			}
		}
		y := int64(0)
		if rng.Intn(4) != 0 {
			y = 1 + rng.Int63n(1<<40)
		}
		emit(c28Case{Progs: ps, Yield: y})
	}
}

func (c28) Shrink(raw json.RawMessage) []any {
	var c c28Case
	if err := json.Unmarshal(raw, &c); err != nil {
		return nil
	}
	var out []any
	if len(c.Progs) > 1 {
		for i := range c.Progs {
			d := c28Case{Yield: c.Yield}
			d.Progs = append(d.Progs, c.Progs[:i]...)
			d.Progs = append(d.Progs, c.Progs[i+1:]...)
			out = append(out, d)
		}
	}
	for i, p := range c.Progs {
		if p.Chain == nil {
			continue
		}
		for _, s := range rmShrink(*p.Chain) {
			d := c28Case{Yield: c.Yield, Progs: append([]c28Prog(nil), c.Progs...)}
			ss := s
			d.Progs[i] = c28Prog{Chain: &ss}
			out = append(out, d)
		}
	}
	if c.Yield != 0 {
		out = append(out, c28Case{Progs: c.Progs})
	}
	return out
}

var _ = strings.TrimSpace
