//go:build prop_c08 || prop_all

package main

// C08 — Variable arguments are passed verbatim, with no re-splitting.
// Values over an injection-shaped alphabet are put into scalar and array
// variables of a function-scoped process; statements `f <args>` rendered from a
// template ($x, $(x), "..$x..", pre$(x)post, @a) are parsed by the real block
// parser + exec-time parameter parser, and for a share of the cases executed:
// $PARAMS of a murex function, `out`, and the argv of an external helper.
// A second stream of raw token soup compares model and implementation only.

import (
	"encoding/json"
	"fmt"
	"math/rand"
	"os"
	"strings"
	"time"

	"github.com/lmorg/murex/lang"

	"verifharness/coqlit"
)

type c08Piece struct {
	Lit   string `json:"lit,omitempty"`
	Var   string `json:"var,omitempty"`
	Paren bool   `json:"paren,omitempty"`
}
type c08Arg struct {
	Arr    string     `json:"arr,omitempty"`
	Quote  bool       `json:"quote,omitempty"` // double quoted
	Pieces []c08Piece `json:"pieces,omitempty"`
}
type c08Case struct {
	Src     string   `json:"src,omitempty"` // raw source (no template)
	Args    []c08Arg `json:"args,omitempty"`
	Scalars []c0xVar `json:"scalars,omitempty"`
	Arrays  []c0xArr `json:"arrays,omitempty"`
	E2E     bool     `json:"e2e,omitempty"`
	Ext     bool     `json:"ext,omitempty"`
}
type c08Obs struct {
	Src    string   `json:"src"`
	First  c0xFirst `json:"first"`
	E2E    string   `json:"e2e"`
	Detail string   `json:"detail,omitempty"`
}

type c08 struct{}

func init() { register("C08", c08{}) }

func c08IsBare(c byte) bool {
	return c == '_' || c == '.' || (c >= 'a' && c <= 'z') || (c >= 'A' && c <= 'Z') || (c >= '0' && c <= '9')
}
func c08IsAlnum(c byte) bool {
	return (c >= 'a' && c <= 'z') || (c >= 'A' && c <= 'Z') || (c >= '0' && c <= '9')
}

func c08Render(args []c08Arg) string {
	var b strings.Builder
	b.WriteString("f")
	for _, a := range args {
		b.WriteByte(' ')
		if a.Arr != "" {
			b.WriteString("@" + a.Arr)
			continue
		}
		if a.Quote {
			b.WriteByte('"')
		}
		for i, p := range a.Pieces {
			if p.Var != "" {
				nextBare := false
				if i+1 < len(a.Pieces) {
					n := a.Pieces[i+1]
					nextBare = n.Var == "" && len(n.Lit) > 0 && (c08IsBare(n.Lit[0]) || n.Lit[0] == '[' || n.Lit[0] == '(')
				}
				if p.Paren || nextBare {
					b.WriteString("$(" + p.Var + ")")
				} else {
					b.WriteString("$" + p.Var)
				}
				continue
			}
			for j := 0; j < len(p.Lit); j++ {
				c := p.Lit[j]
				switch {
				case a.Quote:
					if c == '\\' || c == '"' || c == '$' || c == '~' {
						b.WriteByte('\\')
					}
					b.WriteByte(c)
				case c08IsAlnum(c) || c >= 0x80:
					b.WriteByte(c)
				default:
					b.WriteByte('\\')
					b.WriteByte(c)
				}
			}
		}
		if a.Quote {
			b.WriteByte('"')
		}
	}
	return b.String()
}

func c08Shape(args []c08Arg) string {
	ps := make([]string, len(args))
	for i, a := range args {
		if a.Arr != "" {
			ps[i] = coqlit.App("PArr", coqlit.Bytes(a.Arr))
			continue
		}
		var sl []string
		for _, p := range a.Pieces {
			if p.Var != "" {
				sl = append(sl, coqlit.App("SVar", coqlit.Bytes(p.Var)))
				continue
			}
			for j := 0; j < len(p.Lit); j++ {
				sl = append(sl, fmt.Sprintf("SLit %d", p.Lit[j]))
			}
		}
		ps[i] = coqlit.App("POne", coqlit.List(sl))
	}
	return coqlit.List(ps)
}

// literal characters usable in a bare (backslash-escaped) word: no LF / CR
var c08BareLits = []string{"a", "b", "Z", "7", " ", ";", "|", "&", "$", "'", "\"", "*", "#", "(", ")", "{", "}", "@", "~", "<", ">", "?", "=", ":", "-", "%", "[", "\t", "é", "日", "\\", "`", ","}

func c08RandLit(r *rand.Rand, quoted bool) string {
	n := 1 + r.Intn(3)
	var b strings.Builder
	for i := 0; i < n; i++ {
		if quoted {
			b.WriteString(c0xAlphabet[r.Intn(len(c0xAlphabet))])
		} else {
			b.WriteString(c08BareLits[r.Intn(len(c08BareLits))])
		}
	}
	return b.String()
}

func c08RandValue(r *rand.Rand) string {
	switch r.Intn(12) {
	case 0:
		return ""
	case 1:
		return c0xRandString(r, 6, 4) + []string{"\n", "\r\n", "\r", "\n\n", "\r\r\n", "\n\r"}[r.Intn(6)]
	case 2:
		return c0xRandString(r, 150, 5)
	}
	return c0xRandString(r, 10, 4)
}

func c08SingleLine(s string) string {
	return strings.NewReplacer("\n", "", "\r", "").Replace(s)
}

func c08RandEnv(r *rand.Rand) ([]c0xVar, []c0xArr) {
	sc := []c0xVar{{"x", c08RandValue(r)}, {"y", c08RandValue(r)}, {"zz", c08RandValue(r)}}
	mk := func(allowEmpty bool) []string {
		n := 1 + r.Intn(5)
		els := make([]string, n)
		for i := range els {
			els[i] = c08SingleLine(c0xRandString(r, 8, 5))
			if els[i] == "" && !allowEmpty {
				els[i] = "e"
			}
		}
		return els
	}
	return sc, []c0xArr{{"a", mk(r.Intn(4) == 0)}, {"b", mk(false)}}
}

var c08RawTokens = []string{
	"a", "b", "c", " ", " ", "  ", "\t", "$x", "$(x)", "$y", "$(zz)", "$un", "$(un)", "$", "@a", "@b", "@", " @a", "@un",
	"'q r'", "''", "\"$x\"", "\"p $(y) q\"", "\"\"", "%(w $x)", "%()", "%(a(b)c)", "\\ ", "\\$", "\\;", "\\n", "\\t", "\\\\", "\\'",
	";", "|", "&&", "&", "*", "?", " ? ", "~", ":", "=", "=>", "->", "-", "[", "]", "%", "\n", "\r", "/", "!", ",", "+", "^", "é",
	"(", "{", "}", "<", ">", ">>", "#", "`", "%[", "${", "$x[", "~>", "\"", "'",
}

func (c08) Gen(seed int64, tier string, emit func(any)) {
	x := func(v string) []c0xVar { return []c0xVar{{"x", v}} }
	one := func(p ...c08Piece) []c08Arg { return []c08Arg{{Pieces: p}} }
	// design-phase witness F08 and hand-picked injection values
	emit(c08Case{Args: []c08Arg{{Arr: "a"}}, Arrays: []c0xArr{{"a", []string{"x", "", "y"}}}, E2E: true})
	for _, v := range []string{"a b", "a;out INJ", "$x", "$(x)", "${out INJ}", "@a", "~", "*", "a && out INJ", "a | out INJ",
		"'", "\"", "{", "}", "a\nout INJ", "x\n", "x\r\n", "x\n\n", "\n", "", " ", "\\", "%[1,2]", "-> out", "=> x", "#c", "`"} {
		emit(c08Case{Args: one(c08Piece{Var: "x"}), Scalars: x(v), E2E: true, Ext: true})
		emit(c08Case{Args: one(c08Piece{Var: "x", Paren: true}), Scalars: x(v), E2E: true})
		emit(c08Case{Args: []c08Arg{{Quote: true, Pieces: []c08Piece{{Lit: "p "}, {Var: "x"}, {Lit: " q"}}}}, Scalars: x(v)})
	}
	// exhaustive: every value of length <= 2 over a small alphabet, as $x
	small := []string{"a", " ", ";", "$", "@", "~", "*", "|", "&", "'", "\"", "{", "}", "\n", "\r", "\\", "(", "#"}
	vals := append([]string{}, small...)
	for _, a := range small {
		for _, b := range small {
			vals = append(vals, a+b)
		}
	}
	for i, v := range vals {
		emit(c08Case{Args: one(c08Piece{Var: "x", Paren: i%2 == 1}), Scalars: x(v)})
	}

	r := rand.New(rand.NewSource(seed))
	n := 400
	if tier == "thorough" {
		n = 6000
	}
	for i := 0; i < n; i++ {
		sc, ar := c08RandEnv(r)
		var args []c08Arg
		switch r.Intn(5) {
		case 0:
			args = one(c08Piece{Var: "x", Paren: r.Intn(2) == 0})
		case 1:
			args = []c08Arg{{Arr: "a"}}
		default:
			na := 1 + r.Intn(4)
			for j := 0; j < na; j++ {
				switch r.Intn(6) {
				case 0:
					args = append(args, c08Arg{Arr: []string{"a", "b"}[r.Intn(2)]})
				default:
					q := r.Intn(3) == 0
					np := 1 + r.Intn(3)
					var ps []c08Piece
					for k := 0; k < np; k++ {
						if r.Intn(2) == 0 {
							ps = append(ps, c08Piece{Var: []string{"x", "y", "zz"}[r.Intn(3)], Paren: r.Intn(2) == 0})
						} else {
							ps = append(ps, c08Piece{Lit: c08RandLit(r, q)})
						}
					}
					args = append(args, c08Arg{Quote: q, Pieces: ps})
				}
			}
		}
		emit(c08Case{Args: args, Scalars: sc, Arrays: ar, E2E: i%5 == 0, Ext: i%15 == 0})
	}
	// raw token soup: model vs implementation
	for i := 0; i < n; i++ {
		sc, ar := c08RandEnv(r)
		var b strings.Builder
		b.WriteString("f ")
		k := 1 + r.Intn(7)
		for j := 0; j < k; j++ {
			b.WriteString(c08RawTokens[r.Intn(len(c08RawTokens))])
		}
		emit(c08Case{Src: b.String(), Scalars: sc, Arrays: ar})
	}
}

// c08TimedOut is set when an end-to-end run did not finish in time (overloaded
// machine): the case then counts as "e2e not run" instead of "differs".
var c08TimedOut bool

func c08ExecIn(fork *lang.Fork, block string) (string, bool) {
	type ret struct {
		n   int
		err error
	}
	done := make(chan ret, 1)
	go func() {
		n, err := fork.Execute([]rune(block))
		done <- ret{n, err}
	}()
	select {
	case x := <-done:
		if x.err != nil || x.n != 0 {
			return "", false
		}
	case <-time.After(60 * time.Second):
		c08TimedOut = true
		return "", false
	}
	b, err := fork.Stdout.ReadAll()
	if err != nil {
		return "", false
	}
	return string(b), true
}

func c08Same(a, b []string) bool {
	if len(a) != len(b) {
		return false
	}
	for i := range a {
		if a[i] != b[i] {
			return false
		}
	}
	return true
}

func (c08) Run(raw json.RawMessage) Result {
	var c c08Case
	if err := json.Unmarshal(raw, &c); err != nil {
		die("C08: bad case: %v", err)
	}
	src := c.Src
	tmpl := "None"
	if c.Src == "" {
		src = c08Render(c.Args)
		tmpl = "(Some " + c08Shape(c.Args) + ")"
	}
	fork, view := c0xFork(c.Scalars, c.Arrays)
	st := c0xParse(src, fork.Process)
	o := c08Obs{Src: src, First: st, E2E: "not run"}
	okParse := st.Kind == 0 && !st.IsExpr && st.NFuncs == 1

	e2e := true
	if c.E2E && c.Src == "" {
		c0xFuncOnce.Do(func() {
			r := RunMurex("function verifpf { $PARAMS -> format json }", 20*time.Second)
			if r.Err || r.ExitNum != 0 {
				die("C08: cannot define verifpf: %s", r.Stderr)
			}
		})
		args := strings.TrimPrefix(src, "f")
		// 1. $PARAMS of a murex function
		f1, _ := c0xFork(c.Scalars, c.Arrays)
		out, ok := c08ExecIn(f1, "verifpf"+args)
		var ps []string
		if ok {
			ok = json.Unmarshal([]byte(out), &ps) == nil
		}
		switch {
		case ok && okParse:
			e2e = c08Same(ps, st.Params)
			if !e2e {
				o.Detail = fmt.Sprintf("$PARAMS = %q", ps)
			}
		case ok != okParse:
			e2e = false
			o.Detail = fmt.Sprintf("$PARAMS ok=%v, parser ok=%v", ok, okParse)
		}
		// 2. `out`: only meaningful when the text has no {CONST} token (out expands those)
		if e2e && okParse && !strings.Contains(strings.Join(st.Params, ""), "{") {
			f2, _ := c0xFork(c.Scalars, c.Arrays)
			out, ok := c08ExecIn(f2, "out"+args)
			want := strings.Join(st.Params, " ") + "\n"
			if !ok || out != want {
				e2e = false
				o.Detail = fmt.Sprintf("out printed %q, want %q", out, want)
			}
		}
		// 3. argv of an external helper (no NUL bytes in argv)
		if e2e && okParse && c.Ext && !strings.Contains(strings.Join(st.Params, ""), "\x00") {
			f3, _ := c0xFork(c.Scalars, c.Arrays)
			self, _ := os.Executable()
			out, ok := c08ExecIn(f3, "exec "+self+" child C08 argv"+args)
			var av []string
			if ok {
				ok = json.Unmarshal([]byte(out), &av) == nil
			}
			if !ok || !c08Same(av, st.Params) {
				e2e = false
				o.Detail = fmt.Sprintf("external argv %q (ok=%v)", av, ok)
			}
		}
		if c08TimedOut {
			c08TimedOut = false
			e2e = true
			o.E2E = "timeout (not counted)"
		} else if e2e {
			o.E2E = "agrees"
		} else {
			o.E2E = "differs"
		}
	}

	kind := st.Kind
	if st.IsExpr {
		kind = 3
	}
	obs := coqlit.Record(
		"o_kind", coqlit.N(uint64(kind)),
		"o_nfuncs", coqlit.N(uint64(st.NFuncs)),
		"o_rawlen", coqlit.N(uint64(st.RawLen)),
		"o_cmd", coqlit.Bytes(st.Cmd),
		"o_params", coqlit.BytesList(st.Params),
		"o_e2e", coqlit.Bool(e2e),
	)
	coq := coqlit.Record(
		"k_src", coqlit.Bytes(src),
		"k_env", c0xCoqEnv(view, c.Arrays),
		"k_home", coqlit.Bytes(c0xHome()),
		"k_nocolour", coqlit.Bool(c0xNoColour()),
		"k_tmpl", tmpl,
		"k_obs", obs,
	)
	class := "raw"
	nontrivial := false
	if c.Src == "" {
		class = "template"
		if len(c.Args) == 1 && c.Args[0].Arr != "" {
			class = "array"
		} else if len(c.Args) == 1 && len(c.Args[0].Pieces) == 1 && c.Args[0].Pieces[0].Var != "" && !c.Args[0].Quote {
			class = "scalar"
		}
		for _, v := range c.Scalars {
			if c09NontrivialLike(v.Val) {
				nontrivial = true
			}
		}
		for _, a := range c.Arrays {
			for _, e := range a.Els {
				if c09NontrivialLike(e) {
					nontrivial = true
				}
			}
		}
	}
	return Result{Obs: o, Coq: coq, Nontrivial: nontrivial, Class: class}
}

func c09NontrivialLike(s string) bool {
	for i := 0; i < len(s); i++ {
		if !c08IsAlnum(s[i]) {
			return true
		}
	}
	return false
}

// Child: `mxh child C08 argv a b c` prints its arguments as a JSON array.
func (c08) Child(args []string) {
	if len(args) < 1 || args[0] != "argv" {
		die("C08 child: unknown mode")
	}
	av := args[1:]
	if av == nil {
		av = []string{}
	}
	b, _ := json.Marshal(av)
	os.Stdout.Write(b)
}

// Shrink: shorten one value by one rune, drop one array element, drop one argument.
func (c08) Shrink(raw json.RawMessage) []any {
	var c c08Case
	if json.Unmarshal(raw, &c) != nil || c.Src != "" {
		return nil
	}
	var out []any
	if len(c.Args) > 1 {
		for i := range c.Args {
			d := c
			d.Args = append(append([]c08Arg{}, c.Args[:i]...), c.Args[i+1:]...)
			out = append(out, d)
		}
	}
	for i, v := range c.Scalars {
		rs := []rune(v.Val)
		for j := range rs {
			d := c
			d.Scalars = append([]c0xVar{}, c.Scalars...)
			d.Scalars[i] = c0xVar{v.Name, string(rs[:j]) + string(rs[j+1:])}
			out = append(out, d)
			if len(out) > 150 {
				return out
			}
		}
	}
	for i, a := range c.Arrays {
		for j := range a.Els {
			if len(a.Els) > 1 {
				d := c
				d.Arrays = append([]c0xArr{}, c.Arrays...)
				d.Arrays[i] = c0xArr{a.Name, append(append([]string{}, a.Els[:j]...), a.Els[j+1:]...)}
				out = append(out, d)
			}
			rs := []rune(a.Els[j])
			if len(rs) > 0 {
				d := c
				d.Arrays = append([]c0xArr{}, c.Arrays...)
				els := append([]string{}, a.Els...)
				els[j] = string(rs[1:])
				d.Arrays[i] = c0xArr{a.Name, els}
				out = append(out, d)
			}
		}
	}
	return out
}
