//go:build prop_c28 || prop_all

package main

// C28: nested programs with a statically known fork tree (Model/FidTree.v):
// if / foreach / sub-shell / function definition + call / try chains inside
// normal-mode blocks whose statements are joined by `;` (so that every
// statement runs whatever the exit numbers of the structural builtins are).

import (
	"fmt"
	"math/rand"
	"strings"

	"verifharness/coqlit"
)

type c28S struct {
	K     string  `json:"k"` // out err true false f0 f1 f7 | if foreach sub fn try
	N     int     `json:"n,omitempty"`
	Cond  bool    `json:"cond,omitempty"` // if: the condition is `true` / `false`
	Then  *c28N   `json:"then,omitempty"`
	Else  *c28N   `json:"else,omitempty"`
	Body  *c28N   `json:"body,omitempty"`  // foreach, sub, fn
	Iter  int     `json:"iter,omitempty"`  // foreach
	Chain *rmCase `json:"chain,omitempty"` // try: a chain in mode try / trypipe
}

type c28N struct {
	S []c28S `json:"s"`
}

var c28fnCounter int

func c28Indent(s string) string { return s }

func (n *c28N) src(pfx string) string {
	parts := make([]string, 0, len(n.S))
	for i, s := range n.S {
		parts = append(parts, s.src(fmt.Sprintf("%s_%d", pfx, i)))
	}
	return strings.Join(parts, "; ")
}

func (s *c28S) src(pfx string) string {
	switch s.K {
	case "if":
		c := "false"
		if s.Cond {
			c = "true"
		}
		return "if { " + c + " } then { " + s.Then.src(pfx+"t") + " } else { " + s.Else.src(pfx+"e") + " }"
	case "foreach":
		return fmt.Sprintf("a [1..%d] -> foreach i { %s }", s.Iter, s.Body.src(pfx+"b"))
	case "sub":
		return "out ${ " + s.Body.src(pfx+"b") + " }"
	case "fn":
		name := "c28f" + pfx
		return "function " + name + " { " + s.Body.src(pfx+"b") + " }; " + name
	case "try":
		return rmSource(*s.Chain)
	}
	return rmStageSrc(rmStage{K: s.K, N: s.N})
}

func c28Proc(method, and, or bool, exit int) string {
	return coqlit.Record("p_method", coqlit.Bool(method), "p_and", coqlit.Bool(and), "p_or", coqlit.Bool(or),
		"p_cmd", coqlit.Record("c_exit", coqlit.Z(int64(exit)), "c_tok", "[]", "c_fwd", "false", "c_err", "[]"))
}

func c28Node(reg bool, mode string, procs, kids []string, owner []int) string {
	ow := make([]string, len(owner))
	for i, o := range owner {
		ow[i] = coqlit.Nat(o)
	}
	return "(FNode " + coqlit.Bool(reg) + " " + mode + " " + coqlit.List(procs) + " " + coqlit.List(kids) + " " + coqlit.List(ow) + ")"
}

// the fork of a call of one of the helper functions fK / gK: registered, normal
// mode, its body's processes
func c28FuncKid(k string) (string, bool) {
	n := 0
	switch k {
	case "f0", "f1", "f7", "s0":
		n = 2
	case "g0", "g1", "g7", "b0", "gs0":
		n = 3
	default:
		return "", false
	}
	ps := make([]string, n)
	for i := range ps {
		ps[i] = c28Proc(false, false, false, 0)
	}
	return c28Node(true, "RmNormal", ps, nil, nil), true
}

// tree of a block: reg / mode of the fork that executes it
func (n *c28N) tree(reg bool) string {
	var procs, kids []string
	var owner []int
	add := func(p string) int { procs = append(procs, p); return len(procs) - 1 }
	for _, s := range n.S {
		switch s.K {
		case "if":
			i := add(c28Proc(false, false, false, 0))
			ce := 1
			if s.Cond {
				ce = 0
			}
			kids = append(kids, c28Node(false, "RmNormal", []string{c28Proc(false, false, false, ce)}, nil, nil))
			owner = append(owner, i)
			if s.Cond {
				kids = append(kids, s.Then.tree(false))
			} else {
				kids = append(kids, s.Else.tree(false))
			}
			owner = append(owner, i)
		case "foreach":
			add(c28Proc(false, false, false, 0))         // a [1..K]
			i := add(c28Proc(true, false, false, 0))     // foreach (method)
			for k := 0; k < s.Iter; k++ {
				kids = append(kids, s.Body.tree(false))
				owner = append(owner, i)
			}
		case "sub":
			i := add(c28Proc(false, false, false, 0))
			kids = append(kids, s.Body.tree(false))
			owner = append(owner, i)
		case "fn":
			add(c28Proc(false, false, false, 0)) // function definition
			i := add(c28Proc(false, false, false, 0))
			kids = append(kids, s.Body.tree(true))
			owner = append(owner, i)
		case "try":
			i := add(c28Proc(false, false, false, 0))
			var cp, ck []string
			var co []int
			for pi, pl := range s.Chain.P {
				for si, st := range pl.S {
					and, or := false, false
					if si == 0 && pi > 0 {
						and, or = pl.J == "&&", pl.J == "||"
					}
					cp = append(cp, c28Proc(si > 0, and, or, rmExit(st.K)))
					if kid, ok := c28FuncKid(st.K); ok {
						ck = append(ck, kid)
						co = append(co, len(cp)-1)
					}
				}
			}
			kids = append(kids, c28Node(false, rmModeCoq(s.Chain.Mode), cp, ck, co))
			owner = append(owner, i)
		default:
			i := add(c28Proc(false, false, false, rmExit(s.K)))
			if kid, ok := c28FuncKid(s.K); ok {
				kids = append(kids, kid)
				owner = append(owner, i)
			}
		}
	}
	return c28Node(reg, "RmNormal", procs, kids, owner)
}

func c28RandBlock(rng *rand.Rand, depth int) *c28N {
	n := &c28N{}
	k := 1 + rng.Intn(3)
	leaves := []string{"out", "out", "err", "true", "false", "f0", "f1", "f7"}
	for i := 0; i < k; i++ {
		r := rng.Intn(10)
		if depth <= 0 || r < 4 {
			n.S = append(n.S, c28S{K: leaves[rng.Intn(len(leaves))], N: 1 + rng.Intn(9)})
			continue
		}
		switch rng.Intn(5) {
		case 0:
			n.S = append(n.S, c28S{K: "if", Cond: rng.Intn(2) == 0, Then: c28RandBlock(rng, depth-1), Else: c28RandBlock(rng, depth-1)})
		case 1:
			n.S = append(n.S, c28S{K: "foreach", Iter: 1 + rng.Intn(3), Body: c28RandBlock(rng, depth-1)})
		case 2:
			n.S = append(n.S, c28S{K: "sub", Body: c28RandBlock(rng, depth-1)})
		case 3:
			n.S = append(n.S, c28S{K: "fn", Body: c28RandBlock(rng, depth-1)})
		default:
			m := []string{"try", "trypipe"}[rng.Intn(2)]
			c := rmRandom(rng, m, 2+rng.Intn(5), 3)
			n.S = append(n.S, c28S{K: "try", Chain: &c})
		}
	}
	return n
}

// the three shapes named in the brief, then random ones
func c28FixedTrees() []*c28N {
	leaf := func(k string, n int) c28S { return c28S{K: k, N: n} }
	blk := func(s ...c28S) *c28N { return &c28N{S: s} }
	abort := rmCase{Mode: "try", P: []rmPipe{{J: ";", S: []rmStage{{K: "f1", N: 1}}}, {J: ";", S: []rmStage{{K: "out", N: 2}}}, {J: ";", S: []rmStage{{K: "f0", N: 3}}}}}
	abort2 := rmCase{Mode: "trypipe", P: []rmPipe{{J: ";", S: []rmStage{{K: "out", N: 1}, {K: "g7", N: 2}, {K: "g0", N: 3}}}, {J: "||", S: []rmStage{{K: "f0", N: 4}}}, {J: "||", S: []rmStage{{K: "f0", N: 5}}}, {J: ";", S: []rmStage{{K: "f1", N: 6}}}, {J: ";", S: []rmStage{{K: "out", N: 7}}}}}
	return []*c28N{
		// if in foreach in function
		blk(c28S{K: "fn", Body: blk(c28S{K: "foreach", Iter: 3, Body: blk(c28S{K: "if", Cond: true, Then: blk(leaf("f0", 1), leaf("out", 2)), Else: blk(leaf("out", 3))}, leaf("f7", 4))})}),
		// sub-shells, nested
		blk(c28S{K: "sub", Body: blk(leaf("f0", 1), c28S{K: "sub", Body: blk(leaf("out", 2), leaf("f1", 3))})}, leaf("out", 4)),
		// try inside foreach with an abort
		blk(c28S{K: "foreach", Iter: 3, Body: blk(c28S{K: "try", Chain: &abort}, leaf("out", 9))}),
		blk(c28S{K: "foreach", Iter: 2, Body: blk(c28S{K: "try", Chain: &abort2})}, c28S{K: "if", Cond: false, Then: blk(leaf("out", 1)), Else: blk(c28S{K: "try", Chain: &abort})}),
	}
}
