//go:build prop_c03 || prop_c32 || prop_all

package main

import "github.com/lmorg/murex/builtins/pipes/streams"

// Stream-level yield points (before every atomic action of streams.Stdin: Read / Write /
// Open / Close / ReadAll / GetDataType ...) come from the C01/C02 hook in
// builtins/pipes/streams (verif_hook.go; one global callback slot, free in this binary).
func c03InstallStreamYield(fn func(site string)) {
	if fn == nil {
		streams.VerifSetYield(nil)
		return
	}
	streams.VerifSetYield(func(_ *streams.Stdin, point string) { fn("stream." + point) })
}
