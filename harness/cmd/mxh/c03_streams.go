//go:build prop_c03 || prop_c32 || prop_all

package main

// Stream-level yield points (Stdin.Read / Write / Close ...) belong to the C01/C02
// hook in builtins/pipes/streams (one global callback slot). Installed here when
// that hook is present in the tree.
func c03InstallStreamYield(fn func(site string)) {}
