//go:build prop_c38 || prop_all

package main

// C38 — List builtins preserve their elements.
// Every case: a data type (str / json), a builtin with its parameters and a
// list of elements.  The elements are encoded by the harness itself (JSON text
// by encoding/json, str as lines), fed to the real builtin on a prepared
// process, and the builtin's stdout is decoded by the harness (encoding/json /
// line split) into the observed element list.

import (
	"bytes"
	"encoding/json"
	"math/rand"
	"strconv"
	"strings"
	"time"
	"unicode/utf8"

	"github.com/lmorg/murex/lang"

	"verifharness/coqlit"
)

type c38Case struct {
	Dt     string   `json:"dt"`     // str | json
	Op     string   `json:"op"`     // msort mtac prepend append match left right prefix suffix
	Params []string `json:"-"` // left/right: one decimal integer
	In     []string `json:"-"`
	Pretty bool     `json:"pretty,omitempty"` // json stdin indented
	Loose  bool     `json:"loose,omitempty"`  // run with `config set proc strict-arrays false`
}

type c38Obs struct {
	Err   bool     `json:"err"`
	Out   []string `json:"-"`
	Err2  bool     `json:"err2,omitempty"`
	Out2  []string `json:"-"`
	Bad   string   `json:"bad,omitempty"` // panic / timeout / undecodable stdout (diagnostic)
	Raw   string   `json:"raw,omitempty"`
}

// wire forms: byte strings as printable ASCII (see bstr)
type c38Wire struct {
	Dt     string `json:"dt"`
	Op     string `json:"op"`
	Params []bstr `json:"params"`
	In     []bstr `json:"in"`
	Pretty bool   `json:"pretty,omitempty"`
	Loose  bool   `json:"loose,omitempty"`
}

func (c c38Case) MarshalJSON() ([]byte, error) {
	return json.Marshal(c38Wire{c.Dt, c.Op, bstrs(c.Params), bstrs(c.In), c.Pretty, c.Loose})
}

func (c *c38Case) UnmarshalJSON(b []byte) error {
	var w c38Wire
	if err := json.Unmarshal(b, &w); err != nil {
		return err
	}
	*c = c38Case{Dt: w.Dt, Op: w.Op, Params: unbstrs(w.Params), In: unbstrs(w.In), Pretty: w.Pretty, Loose: w.Loose}
	return nil
}

func (o c38Obs) MarshalJSON() ([]byte, error) {
	return json.Marshal(struct {
		Err  bool   `json:"err"`
		Out  []bstr `json:"out"`
		Err2 bool   `json:"err2,omitempty"`
		Out2 []bstr `json:"out2,omitempty"`
		Bad  string `json:"bad,omitempty"`
		Raw  bstr   `json:"raw,omitempty"`
	}{o.Err, bstrs(o.Out), o.Err2, bstrs(o.Out2), o.Bad, bstr(o.Raw)})
}

type c38 struct{}

func init() { register("C38", c38{}) }

var c38Ascii = []string{"a", "b", "A", "B", "0", "1", "10", "9", "-", ".", " ", "\t", "\"", "\\", "'", "[", "]", "{", "}",
	",", ":", "$", "@", "<", ">", "&", "%", "#", "~", "*", "(", ")", "|", ";", "=", "`", "!", "?", "/", "_"}
var c38Multi = []string{"é", "ß", "€", "世", "😀", "́", "�"}
var c38JsonOnly = []string{"\n", "\r", "\x01", "\x7f", " ", "\x1b"}
var c38StrOnly = []string{"\xff", "\xc3", "\x80", "\xe2\x82", "\r"}

func c38Alphabet(dt string, rng *rand.Rand) []string {
	switch rng.Intn(4) {
	case 0: // plain words
		return []string{"a", "b", "c", "A", "B", "0", "1", "2", "10"}
	case 1:
		return c38Ascii
	}
	al := append(append([]string{}, c38Ascii...), c38Multi...)
	if dt == "json" {
		return append(al, c38JsonOnly...)
	}
	return append(al, c38StrOnly...)
}

func c38Elem(rng *rand.Rand, al []string) string {
	n := 0
	switch r := rng.Intn(20); {
	case r == 0:
		n = 0
	case r < 14:
		n = 1 + rng.Intn(4)
	case r < 19:
		n = 4 + rng.Intn(8)
	default:
		n = 40 + rng.Intn(200)
	}
	return arrPick(rng, al, n)
}

// c38Legal: an element the harness' own str codec can carry (no newline, and no
// non-ASCII white space at its ends — the model only trims ASCII white space).
func c38LegalStr(s string) string {
	s = strings.ReplaceAll(s, "\n", "")
	return s
}

func c38List(rng *rand.Rand, dt string, al []string) []string {
	n := 0
	switch r := rng.Intn(12); {
	case r == 0:
		n = 0
	case r == 1:
		n = 1
	case r < 9:
		n = 2 + rng.Intn(8)
	default:
		n = 10 + rng.Intn(31)
	}
	xs := make([]string, n)
	dup := rng.Intn(3) == 0
	for i := range xs {
		if dup && i > 0 && rng.Intn(3) == 0 {
			xs[i] = xs[rng.Intn(i)]
			continue
		}
		xs[i] = c38Elem(rng, al)
		if dt == "str" {
			xs[i] = c38LegalStr(xs[i])
		}
	}
	return xs
}

func c38Params(rng *rand.Rand, dt string, al []string, min, max int) []string {
	n := min + rng.Intn(max-min+1)
	ps := make([]string, n)
	for i := range ps {
		ps[i] = arrPick(rng, al, rng.Intn(4))
		if dt == "str" {
			ps[i] = c38LegalStr(ps[i])
		}
	}
	return ps
}

var c38Ops = []string{"msort", "mtac", "prepend", "append", "match", "left", "right", "prefix", "suffix"}

func (c38) Gen(seed int64, tier string, emit func(any)) {
	// fixed part: boundary cases for every builtin and type
	for _, dt := range []string{"str", "json"} {
		for _, op := range c38Ops {
			var ps []string
			switch op {
			case "prepend", "append":
				ps = []string{"x", ""}
			case "match":
				ps = []string{"a"}
			case "left", "right":
				ps = []string{"2"}
			case "prefix", "suffix":
				ps = []string{"<", ">"}
			}
			for _, in := range [][]string{{}, {""}, {"a"}, {"b", "a", "", "ab", "B", "a"}, {"é€", "😀a", "aé"}} {
				emit(c38Case{Dt: dt, Op: op, Params: ps, In: in})
				if dt == "json" && len(in) < 2 {
					emit(c38Case{Dt: dt, Op: op, Params: ps, In: in, Loose: true})
				}
			}
		}
		for _, n := range []string{"0", "1", "-1", "3", "-3", "100", "-100", "1099511627776", "-1099511627776"} {
			emit(c38Case{Dt: dt, Op: "left", Params: []string{n}, In: []string{"", "a", "ab", "abc", "abcd", "é€😀x", "€"}})
			emit(c38Case{Dt: dt, Op: "right", Params: []string{n}, In: []string{"", "a", "ab", "abc", "abcd", "é€😀x", "€"}})
		}
		emit(c38Case{Dt: dt, Op: "match", Params: []string{}, In: []string{"a", "b"}})
		emit(c38Case{Dt: dt, Op: "match", Params: []string{""}, In: []string{"a", "b"}})
		emit(c38Case{Dt: dt, Op: "match", Params: []string{"a", "b"}, In: []string{"a b", "ab", "b a", "xa bx"}})
		emit(c38Case{Dt: dt, Op: "match", Params: []string{"zz"}, In: []string{"a", "b"}})
		emit(c38Case{Dt: dt, Op: "match", Params: []string{"a"}, In: []string{"a", "aa"}})
		emit(c38Case{Dt: dt, Op: "prepend", Params: []string{}, In: []string{}})
		emit(c38Case{Dt: dt, Op: "append", Params: []string{}, In: []string{}})
		emit(c38Case{Dt: dt, Op: "msort", In: []string{"b", "a", "B", "10", "9", "", "ab", "a", "é", "z"}})
	}
	emit(c38Case{Dt: "str", Op: "msort", In: []string{"  b", "a  ", "\tc\t", " "}})
	emit(c38Case{Dt: "str", Op: "left", Params: []string{"1"}, In: []string{"\xffa", "\xc3", "a\x80b"}})

	rng := rand.New(rand.NewSource(seed))
	n := 1400
	if tier == "thorough" {
		n = 30000
	}
	for i := 0; i < n; i++ {
		dt := "json"
		if rng.Intn(2) == 0 {
			dt = "str"
		}
		al := c38Alphabet(dt, rng)
		c := c38Case{Dt: dt, Op: c38Ops[rng.Intn(len(c38Ops))], In: c38List(rng, dt, al)}
		c.Pretty = dt == "json" && rng.Intn(4) == 0
		c.Loose = dt == "json" && rng.Intn(4) == 0
		switch c.Op {
		case "prepend", "append":
			c.Params = c38Params(rng, dt, al, 0, 3)
		case "prefix", "suffix":
			c.Params = c38Params(rng, dt, al, 0, 2)
		case "match":
			// mostly a piece of an existing element so that both parts are non-empty
			if len(c.In) > 0 && rng.Intn(4) != 0 {
				e := c.In[rng.Intn(len(c.In))]
				if dt == "str" {
					e = strings.TrimSpace(e)
				}
				if len(e) > 0 {
					a := rng.Intn(len(e))
					b := a + 1 + rng.Intn(len(e)-a)
					// keep the pattern on character boundaries for json (parameters are text)
					for a > 0 && !utf8.RuneStart(e[a]) {
						a--
					}
					for b < len(e) && !utf8.RuneStart(e[b]) {
						b++
					}
					c.Params = []string{e[a:b]}
				}
			}
			if c.Params == nil {
				c.Params = c38Params(rng, dt, al, 1, 2)
			}
		case "left", "right":
			v := rng.Intn(13) - 6
			if rng.Intn(12) == 0 {
				v = (rng.Intn(2)*2 - 1) * (50 + rng.Intn(400))
			}
			c.Params = []string{strconv.Itoa(v)}
		}
		emit(c)
	}
}

func c38Encode(c c38Case) []byte {
	if c.Dt == "str" {
		var b bytes.Buffer
		for _, e := range c.In {
			b.WriteString(e)
			b.WriteByte('\n')
		}
		return b.Bytes()
	}
	in := c.In
	if in == nil {
		in = []string{}
	}
	var b []byte
	if c.Pretty {
		b, _ = json.MarshalIndent(in, "", "    ")
	} else {
		b, _ = json.Marshal(in)
	}
	return b
}

// c38Decode: stdout -> elements, independent of murex's readers.
func c38Decode(dt string, out []byte) ([]string, bool) {
	if dt == "str" {
		if len(out) == 0 {
			return []string{}, true
		}
		if out[len(out)-1] != '\n' {
			return nil, false
		}
		return strings.Split(string(out[:len(out)-1]), "\n"), true
	}
	if len(bytes.TrimSpace(out)) == 0 {
		return []string{}, true // nothing written: murex reads this as an empty array
	}
	var v []string
	if err := json.Unmarshal(out, &v); err != nil || v == nil {
		return nil, false
	}
	return v, true
}

func c38RunOne(c c38Case, name string, isNot bool) (bool, []string, string, string) {
	r := arrCallBuiltinCfg(name, isNot, c.Dt, c38Encode(c), c.Params, 30*time.Second, func(p *lang.Process) {
		if c.Loose {
			if err := p.Config.Set("proc", "strict-arrays", false, nil); err != nil {
				die("C38: cannot set strict-arrays: %v", err)
			}
		}
	})
	if r.Panic || r.Timeout {
		what := "panic"
		if r.Timeout {
			what = "timeout"
		}
		return true, []string{"<" + what + ">"}, what, r.Msg
	}
	el, ok := c38Decode(c.Dt, r.Stdout)
	if !ok {
		return r.Err, []string{"<undecodable>"}, "undecodable", string(r.Stdout)
	}
	return r.Err, el, "", ""
}

func c38OpCoq(c c38Case) string {
	switch c.Op {
	case "msort":
		return "OpMsort"
	case "mtac":
		return "OpMtac"
	case "prepend":
		return coqlit.App("OpPrepend", coqlit.BytesList(c.Params))
	case "append":
		return coqlit.App("OpAppend", coqlit.BytesList(c.Params))
	case "match":
		return coqlit.App("OpMatch", coqlit.BytesList(c.Params))
	case "prefix":
		return coqlit.App("OpPrefix", coqlit.BytesList(c.Params))
	case "suffix":
		return coqlit.App("OpSuffix", coqlit.BytesList(c.Params))
	case "left", "right":
		n, err := strconv.ParseInt(c.Params[0], 10, 64)
		if err != nil {
			die("C38: bad count %q", c.Params[0])
		}
		if c.Op == "left" {
			return coqlit.App("OpLeft", coqlit.Z(n))
		}
		return coqlit.App("OpRight", coqlit.Z(n))
	}
	die("C38: bad op %q", c.Op)
	return ""
}

func (c38) Run(raw json.RawMessage) Result {
	var c c38Case
	if err := json.Unmarshal(raw, &c); err != nil {
		die("C38: bad case: %v", err)
	}
	var o c38Obs
	o.Err, o.Out, o.Bad, o.Raw = c38RunOne(c, c.Op, false)
	o.Out2 = []string{}
	if c.Op == "match" {
		var bad, rawo string
		o.Err2, o.Out2, bad, rawo = c38RunOne(c, "match", true)
		if o.Bad == "" {
			o.Bad, o.Raw = bad, rawo
		}
	}
	dt := "DJson"
	if c.Dt == "str" {
		dt = "DStr"
	}
	coq := coqlit.Record("c_dt", dt, "c_strict", coqlit.Bool(!c.Loose), "c_op", c38OpCoq(c), "c_in", coqlit.BytesList(c.In),
		"c_obs", coqlit.Record("o_err", coqlit.Bool(o.Err), "o_out", coqlit.BytesList(o.Out),
			"o_err2", coqlit.Bool(o.Err2), "o_out2", coqlit.BytesList(o.Out2)))
	size := "0"
	switch {
	case len(c.In) == 1:
		size = "1"
	case len(c.In) > 1 && len(c.In) < 10:
		size = "2-9"
	case len(c.In) >= 10:
		size = "10+"
	}
	return Result{Obs: o, Coq: coq, Nontrivial: len(c.In) >= 2, Class: c.Dt + map[bool]string{false: "", true: "-loose"}[c.Loose] + "/" + c.Op + "/" + size}
}

func (c38) Shrink(raw json.RawMessage) []any {
	var c c38Case
	if json.Unmarshal(raw, &c) != nil {
		return nil
	}
	var out []any
	for i := range c.In { // drop one element
		d := c
		d.In = append(append([]string{}, c.In[:i]...), c.In[i+1:]...)
		out = append(out, d)
	}
	for i, e := range c.In { // shorten one element
		if len(e) > 1 {
			d := c
			d.In = append([]string{}, c.In...)
			r := []rune(e)
			d.In[i] = string(r[:len(r)/2])
			out = append(out, d)
		}
	}
	return out
}
