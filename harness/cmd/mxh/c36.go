//go:build prop_c36 || prop_all

package main

// C36 — `%[ ]` and `%{ }` literals build the same value as JSON.
// A case is the text of a literal: a random JSON document of the property's
// restricted grammar printed in one of several spacing styles, prefixed with %.
// The real murex evaluates it in expression position (`%[...]`) and in
// statement position (`out %[...]`); encoding/json parses the same text.

import (
	"bytes"
	"encoding/json"
	"fmt"
	"math"
	"math/rand"
	"sort"
	"strconv"
	"strings"
	"time"

	"verifharness/coqlit"
)

type c36Case struct {
	Text  bstr   `json:"text"`  // the literal, starting with %
	Nums  []bstr `json:"nums"`  // number tokens of the generated document
	Style string `json:"style"` // compact spaced pretty2 pretty4 tabs loose nlcolon | corpus
}

type c36Obs struct {
	Ok    bool   `json:"ok"`
	Val   string `json:"val"`   // canonical JSON of the value murex built (diagnostic form)
	JOk   bool   `json:"jok"`
	JVal  string `json:"jval"`
	Note  string `json:"note,omitempty"`
}

type c36 struct{}

func init() { register("C36", c36{}) }

// ---- document generator ----
type c36Node struct {
	kind  byte // n b # s a o
	b     bool
	tok   string
	items []*c36Node
	keys  []string
}

var c36NumToks = []string{"0", "-0", "1", "-1", "7", "12", "42", "-300", "3.5", "-2.25", "0.1", "0.001", "1e5", "1E5", "1e-3",
	"2.5e+10", "-4E-2", "123456789012", "12345678901234567890", "1.7976931348623157e308", "5e-324", "0.30000000000000004", "100", "1.0", "10.50"}
var c36StrPieces = []string{"a", "b", "c", "k", "x", "Z", "0", "1", "9", " ", "_", "-", ".", "..", ",", ":", "[", "]", "{", "}", "#", "/",
	"'", "%", "@", "<", ">", "&", "=", "+", "*", "!", "?", "|", ";", "é", "ß", "世", "😀", "true", "null", "1..3", "/*", "//"}
var c36Words = []string{"", "true", "false", "null", "1", "-2.5", "1e5", "[1..3]", "..", "a..z", "%[1]", "{}", "[]", "#c", "/#", "  ", "a b"}

func c36Str(rng *rand.Rand) string {
	if rng.Intn(6) == 0 {
		return c36Words[rng.Intn(len(c36Words))]
	}
	return arrPick(rng, c36StrPieces, 1+rng.Intn(6))
}

func c36Gen(rng *rand.Rand, depth int, top bool) *c36Node {
	k := rng.Intn(10)
	if top {
		k = 8 + rng.Intn(2)
	} else if depth <= 0 && k >= 8 {
		k = rng.Intn(8)
	}
	switch {
	case k == 0:
		return &c36Node{kind: 'n'}
	case k == 1:
		return &c36Node{kind: 'b', b: rng.Intn(2) == 0}
	case k < 5:
		return &c36Node{kind: '#', tok: c36NumToks[rng.Intn(len(c36NumToks))]}
	case k < 8:
		return &c36Node{kind: 's', tok: c36Str(rng)}
	case k == 8:
		n := &c36Node{kind: 'a'}
		w := rng.Intn(5)
		if rng.Intn(8) == 0 {
			w = 0
		}
		for i := 0; i < w; i++ {
			n.items = append(n.items, c36Gen(rng, depth-1, false))
		}
		return n
	default:
		n := &c36Node{kind: 'o'}
		w := rng.Intn(5)
		if rng.Intn(8) == 0 {
			w = 0
		}
		for i := 0; i < w; i++ {
			key := c36Str(rng)
			if i > 0 && rng.Intn(12) == 0 {
				key = n.keys[rng.Intn(i)] // duplicate key: the last one wins in both parsers
			}
			n.keys = append(n.keys, key)
			n.items = append(n.items, c36Gen(rng, depth-1, false))
		}
		return n
	}
}

func (n *c36Node) nums(acc *[]string) {
	if n.kind == '#' {
		*acc = append(*acc, n.tok)
	}
	for _, c := range n.items {
		c.nums(acc)
	}
}

type c36Style struct {
	name             string
	indent           string // "" = single line
	comma, colon     string
	preComma, preCol string
	nlColon          bool
}

var c36Styles = []c36Style{
	{name: "compact", comma: ",", colon: ":"},
	{name: "spaced", comma: ", ", colon: ": "},
	{name: "pretty2", indent: "  ", comma: ",", colon: ": "},
	{name: "pretty4", indent: "    ", comma: ",", colon: ": "},
	{name: "tabs", indent: "\t", comma: ",", colon: ":\t"},
	{name: "loose", comma: " ,  ", colon: " :  ", preComma: "", preCol: ""},
	{name: "crlf", indent: " ", comma: ",", colon: ": "},
	{name: "nlcolon", indent: "  ", comma: ",", colon: ":", nlColon: true},
}

func c36Quote(s string) string { return `"` + s + `"` }

func (n *c36Node) print(b *strings.Builder, st c36Style, depth int) {
	nl := func(d int) {
		if st.indent != "" {
			if st.name == "crlf" {
				b.WriteString("\r")
			}
			b.WriteString("\n")
			b.WriteString(strings.Repeat(st.indent, d))
		}
	}
	switch n.kind {
	case 'n':
		b.WriteString("null")
	case 'b':
		b.WriteString(strconv.FormatBool(n.b))
	case '#':
		b.WriteString(n.tok)
	case 's':
		b.WriteString(c36Quote(n.tok))
	case 'a':
		b.WriteString("[")
		for i, c := range n.items {
			if i > 0 {
				b.WriteString(st.comma)
			}
			nl(depth + 1)
			c.print(b, st, depth+1)
		}
		if len(n.items) > 0 {
			nl(depth)
		}
		b.WriteString("]")
	case 'o':
		b.WriteString("{")
		for i, c := range n.items {
			if i > 0 {
				b.WriteString(st.comma)
			}
			nl(depth + 1)
			b.WriteString(c36Quote(n.keys[i]))
			b.WriteString(st.colon)
			if st.nlColon {
				b.WriteString("\n" + strings.Repeat(st.indent, depth+2))
			}
			c.print(b, st, depth+1)
		}
		if len(n.items) > 0 {
			nl(depth)
		}
		b.WriteString("}")
	}
}

func (c36) Gen(seed int64, tier string, emit func(any)) {
	fixed := []string{`%[]`, `%{}`, `%[1,2,3]`, `%["a","b"]`, `%[true,false,null]`, `%{"a":1}`, `%{"a":{"b":[1,{"c":null}]}}`,
		`%[[1,2],[3,4]]`, `%[[[1]]]`, `%[[[[1]]]]`, `%["..","1..3"]`, `%[1.5,2.5]`, `%["a..b",[1,2]]`, `%{"k":"..","j":[1.0,2]}`,
		`%[-0]`, `%[1e5,1E-3]`, `%{"":""}`, `%{"a":1,"a":2}`, `%[ 1 , 2 ]`, "%[\n  1,\n  2\n]", "%{\n  \"a\": 1,\n  \"b\": [\n    true\n  ]\n}",
		"%{\"a\":\n1}", `%["#x","/#y","a b"]`, `%{"k" : "v" , "j" : [ ] }`, `%[1,[2,[3,[4,[5]]]]]`,
		// outside the property's grammar (model: unmodelled or error; spec: not applicable)
		`%[1..3]`, `%[a,b]`, `%{a:1}`, `%[1,2`, `%{"a":1`, `%["a" "b"]`, `%{"a":1 "b":2}`, `%[1 2]`, `%{"a"}`, `%{"a":}`, `%{:1}`, `%{"a":1,,}`, `%[,]`}
	for _, t := range fixed {
		emit(c36Case{Text: bstr(t), Nums: bstrs([]string{"0", "1", "2", "3", "4", "5", "-0", "1.5", "2.5", "1.0", "1e5", "1E-3"}), Style: "corpus"})
	}
	rng := rand.New(rand.NewSource(seed))
	n := 500
	if tier == "thorough" {
		n = 9000
	}
	for i := 0; i < n; i++ {
		doc := c36Gen(rng, 1+rng.Intn(4), true)
		st := c36Styles[rng.Intn(len(c36Styles))]
		if st.nlColon && rng.Intn(3) != 0 {
			st = c36Styles[rng.Intn(5)]
		}
		var b strings.Builder
		b.WriteString("%")
		doc.print(&b, st, 0)
		var nums []string
		doc.nums(&nums)
		emit(c36Case{Text: bstr(b.String()), Nums: bstrs(nums), Style: st.name})
	}
}

// ---- values -> Coq jval ----
func c36Jval(v any) string {
	switch t := v.(type) {
	case nil:
		return "VNull"
	case bool:
		return coqlit.App("VBool", coqlit.Bool(t))
	case float64:
		return coqlit.App("VNum", coqlit.N(math.Float64bits(t)))
	case string:
		return coqlit.App("VStr", coqlit.Bytes(t))
	case []any:
		e := make([]string, len(t))
		for i, x := range t {
			e[i] = c36Jval(x)
		}
		return coqlit.App("VArr", coqlit.List(e))
	case map[string]any:
		keys := make([]string, 0, len(t))
		for k := range t {
			keys = append(keys, k)
		}
		sort.Strings(keys)
		e := make([]string, len(keys))
		for i, k := range keys {
			e[i] = "(" + coqlit.Bytes(k) + ", " + c36Jval(t[k]) + ")"
		}
		return coqlit.App("VObj", coqlit.List(e))
	}
	return coqlit.App("VStr", coqlit.Bytes(fmt.Sprintf("<%T>", v)))
}

func c36Decode(b []byte) (any, bool) {
	var v any
	d := json.NewDecoder(bytes.NewReader(b))
	if err := d.Decode(&v); err != nil {
		return nil, false
	}
	if d.More() {
		return nil, false
	}
	return v, true
}

func c36Canon(v any) string {
	b, err := json.Marshal(v)
	if err != nil {
		return "<" + err.Error() + ">"
	}
	if len(b) > 300 {
		return string(b[:300]) + "…"
	}
	return string(b)
}

func (c36) Run(raw json.RawMessage) Result {
	var c c36Case
	if err := json.Unmarshal(raw, &c); err != nil {
		die("C36: bad case: %v", err)
	}
	text := string(c.Text)
	var o c36Obs
	// expression position
	r1 := RunMurex(text, 20*time.Second)
	v1, ok1 := c36Decode([]byte(r1.Stdout))
	ok1 = ok1 && !r1.Err && r1.ExitNum == 0 && !r1.Timeout
	// statement position
	r2 := RunMurex("out "+text, 20*time.Second)
	v2, ok2 := c36Decode([]byte(r2.Stdout))
	ok2 = ok2 && !r2.Err && r2.ExitNum == 0 && !r2.Timeout
	var val any
	switch {
	case ok1 && ok2 && c36Jval(v1) == c36Jval(v2):
		o.Ok, val = true, v1
	case ok1 != ok2 || (ok1 && ok2):
		o.Note = fmt.Sprintf("expression/statement differ: %v %q | %v %q", ok1, r1.Stdout, ok2, r2.Stdout)
		val = "<positions-differ>"
	default:
		o.Note = strings.TrimSpace(r1.Stderr)
		if len(o.Note) > 200 {
			o.Note = o.Note[:200]
		}
	}
	jv, jok := c36Decode([]byte(text[1:]))
	o.JOk = jok
	o.Val, o.JVal = c36Canon(val), c36Canon(jv)

	tbl := make([]string, 0, len(c.Nums))
	seen := map[string]bool{}
	for _, t := range c.Nums {
		s := string(t)
		if seen[s] {
			continue
		}
		seen[s] = true
		f, err := strconv.ParseFloat(s, 64)
		if err != nil {
			continue
		}
		tbl = append(tbl, "("+coqlit.Bytes(s)+", "+coqlit.N(math.Float64bits(f))+")")
	}
	coq := coqlit.Record("c_text", coqlit.Bytes(text), "c_nums", coqlit.List(tbl),
		"c_obs", coqlit.Record("o_ok", coqlit.Bool(o.Ok), "o_val", c36Jval(val), "o_jok", coqlit.Bool(o.JOk), "o_jval", c36Jval(jv)))
	return Result{Obs: o, Coq: coq, Nontrivial: jok && len(text) > 8, Class: c.Style}
}
