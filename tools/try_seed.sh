#!/bin/bash
# tools/try_seed.sh <property> <patch.diff> [demo_run.sh]
# Applies a seeded change in a scratch worktree of /repo's HEAD, runs the demonstration (if given) on
# the unchanged and changed trees, points the property's check at the changed tree, and cleans up.
set -u
PID=$1; PATCH=$(readlink -f "$2"); DEMO=${3:-}
WT=/tmp/wt-seed-$PID-$$
git -C /repo worktree add "$WT" HEAD >/dev/null 2>&1 || { echo "cannot create worktree"; exit 2; }
trap 'git -C /repo worktree remove --force "$WT" >/dev/null 2>&1; rm -rf "$WT"' EXIT
if [ -n "$DEMO" ]; then
  echo "== demo on unchanged tree"; bash "$DEMO" "$WT" >/tmp/demo-$PID-$$.clean 2>&1; echo "   exit=$?"
fi
git -C "$WT" apply "$PATCH" || { echo "patch does not apply"; exit 2; }
export GOFLAGS=-mod=mod GOPROXY=off
(cd "$WT" && go build ./... ) || { echo "changed tree does not build"; exit 2; }
if [ -n "$DEMO" ]; then
  echo "== demo on changed tree"; bash "$DEMO" "$WT" >/tmp/demo-$PID-$$.mut 2>&1; echo "   exit=$?"; tail -5 /tmp/demo-$PID-$$.mut
fi
echo "== check $PID against changed tree"
cd /verif && VERIF_REPO="$WT" ./check "$PID" --tier "${TIER:-quick}" 2>/tmp/check-$PID-$$.err | tail -8
echo "   check exit=${PIPESTATUS[0]}"
rm -f /tmp/demo-$PID-$$.*
