#!/bin/bash
# Rebuilds KNOWN_FINDINGS.txt from fixes/*.txt (run by the coordinator, never by a check).
cd /verif
{
cat <<'H'
# Known findings and fixed defects (committed; never written at run time).
#   known: property=<id> id=<k> <what fails>       k = number returned by Check.<id>.classify for the failing case
#   fixed: property=<id> <commit in /repo> <what failed>      (suppresses nothing)
H
cat fixes/C*.txt | grep -E '^(known|fixed):' | sort -t= -k2,2 -s | awk '!seen[$0]++'
} > KNOWN_FINDINGS.txt
grep -c '^known' KNOWN_FINDINGS.txt; grep -c '^fixed' KNOWN_FINDINGS.txt
