#!/usr/bin/env python3
"""writes the prompt for a seeding sub-agent: tools/seed_prompt.py <name> <n_per_property> Cxx [Cyy ...]
   creates the worktree /tmp/seed-<name> and prints the path of the prompt file"""
import json,sys,subprocess,os
name=sys.argv[1]; n=int(sys.argv[2]); pids=sys.argv[3:]
wt=f"/tmp/seed-{name}"
if not os.path.exists(wt):
    subprocess.run(["git","-C","/repo","worktree","add",wt,"HEAD"],check=True,stdout=subprocess.DEVNULL,stderr=subprocess.DEVNULL)
props={}
for l in open('/verif/properties.jsonl'):
    p=json.loads(l)
    if p['id'] in pids: props[p['id']]=p
txt="\n\n".join(json.dumps({k:props[i][k] for k in ('id','title','statement','quantifier','why_tests_cant','anchors')},indent=1) for i in pids)
out=f"""You are testing how well a (hidden) verification suite detects regressions in the Go project lmorg/murex (a shell + scripting language). You have your own scratch git worktree of the project at {wt} (already created; work ONLY there — never touch /repo or /verif, and do not read anything under /verif).

Here are {len(pids)} semantic properties of murex that should always hold:

{txt}

Task: for EACH property above produce {n} source change(s) to murex (each a separate, independent patch against the worktree's HEAD) that BREAKS that property while (a) the project still compiles (`go build ./...`), and (b) the project's existing test suite still passes. Each change should be realistic (the kind of bug a developer could introduce in a refactor or feature change: an off-by-one, a dropped condition, a wrong variable, a missing lock/reset, a mishandled special case) and should need something SPECIFIC to manifest (prefer SUBTLE changes: boundary values, rarely-taken branches, error paths, state carried across several operations, interactions between two features) — a particular input, a multi-step sequence of operations, a particular interleaving/timing, a crash or fault at a particular point, or two cooperating sites that each look fine alone — NOT something that ordinary use would expose at once (if every basic use of the feature breaks, the existing tests would fail and the change is too blunt). Prefer changing the logic in the files the anchors name or — better — in their collaborators (helpers, callers, the data types they rely on); line numbers in the anchors may have drifted. Think of at least three candidate changes per property and pick the LEAST obvious one that still passes the existing suite (avoid the first idea that comes to mind: an off-by-one on the main bounds check or dropping the main condition is what everybody tries first). Do not change tests. Do not add build tags. Ignore files named verif_*.go / *_verif.go (test instrumentation that is compiled out).

For each change also write a demonstration: a Go test file (placed where it compiles, e.g. next to the changed package, named verif_seed_demo_test.go) or a small shell script that runs murex code, that FAILS with the change and PASSES without it, showing the property violated on a concrete input/sequence.

Environment: every shell call needs `export GOFLAGS=-mod=mod GOPROXY=off` (and do NOT set GOTOOLCHAIN or GOSUMDB); there is no network. The machine is shared and heavily loaded: always pass `-p 4` to go test, keep outputs short (pipe through tail/head), and treat a package that TIMES OUT (rather than fails an assertion) as inconclusive — re-run it alone. Build a murex binary with `cd {wt} && go build -o /tmp/murex-seed-{name} .` and run code with `MUREX_TEST=1 HOME=/tmp/mxhome-{name} /tmp/murex-seed-{name} -c '<murex code>'`. Run the existing tests of the packages you touched with `go test -p 4 -vet=off -count=1 ./path/...`, and once per change run the whole suite: `cd {wt} && go test -p 4 -mod=mod -vet=off -count=1 -timeout 25m ./... 2>&1 | grep -v '^ok\\|no test files' | tail -30`. On the untouched tree TestHttp (builtins/core/open) and TestAspellInstalled (shell) already fail; under load the shell/autocomplete "timed out" tests and builtins/core/structs TestForEachParallel are flaky — those don't count.

Deliver, in the directory {wt}-out/ (create it), one sub-directory per change named <PropertyId>-<k> (e.g. {pids[0]}-1) containing: `patch.diff` (output of `git -C {wt} diff` for that change alone, applying cleanly to HEAD with `git apply`; do not include the demo in the patch), `demo/` (the demonstration file(s) and a `run.sh` that exits non-zero when the property is violated; it receives the path of a murex source tree as $1 and must build/run against it — for a Go test demo, run.sh copies the test file into the right package directory of $1, runs `go test -run <Name>` there and removes it again), `notes.md` (what was changed, why it breaks the property, exactly what is needed for it to manifest, and the output of the demonstration with and without the change). Reset the worktree to HEAD between changes (`git -C {wt} checkout -- . && git -C {wt} clean -fd`) and at the end. Remove /tmp/murex-seed-{name} at the end. Your final message: for each change a 3-line summary (file/function changed, trigger, demo result with/without, full-suite result).
"""
hint=os.environ.get("SEED_HINT","")
if hint:
    out=out.replace("For each change also write a demonstration", "Kind of change wanted this time: "+hint+"\n\nFor each change also write a demonstration",1)
pf=f"/tmp/seedprompt-{name}.md"
open(pf,"w").write(out)
print(pf)
