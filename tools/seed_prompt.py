#!/usr/bin/env python3
"""prints the prompt for a seeding sub-agent: tools/seed_prompt.py Cxx /tmp/seed-Cxx [n]"""
import json,sys
pid,wt=sys.argv[1],sys.argv[2]
n=int(sys.argv[3]) if len(sys.argv)>3 else 2
for l in open('/verif/properties.jsonl'):
    p=json.loads(l)
    if p['id']==pid: break
txt=json.dumps({k:p[k] for k in ('id','title','statement','quantifier','why_tests_cant','anchors')},indent=1)
print(f"""You are testing how well a (hidden) verification suite detects regressions in the Go project lmorg/murex (a shell + scripting language). You have your own scratch git worktree of the project at {wt} (already created; work ONLY there — never touch /repo or /verif, and do not read anything under /verif).

Here is a semantic property of murex that should always hold:

{txt}

Task: produce {n} DIFFERENT, independent source changes to murex (each a separate patch against the worktree's HEAD) that each BREAK this property while (a) the project still compiles (`go build ./...`), and (b) the project's existing test suite still passes. Each change should be realistic (the kind of bug a developer could introduce in a refactor or feature change: an off-by-one, a dropped condition, a wrong variable, a missing lock/reset, a mishandled special case) and should need something SPECIFIC to manifest — a particular input, a multi-step sequence of operations, a particular interleaving/timing, a crash or fault at a particular point, or two cooperating sites that each look fine alone — NOT something that ordinary use would expose at once (if every basic use of the feature breaks, the existing tests would fail and the change is too blunt). Prefer changing the logic in the files the anchors name (or their direct collaborators). Do not change tests. Do not add build tags.

For each change also write a demonstration: a Go test file (placed where it compiles, e.g. next to the changed package, named verif_seed_demo_test.go) or a small shell script that runs murex code, that FAILS with the change and PASSES without it, showing the property violated on a concrete input/sequence.

Environment: every shell call needs `export GOFLAGS=-mod=mod GOPROXY=off` (and do NOT set GOTOOLCHAIN or GOSUMDB); there is no network. Build a murex binary with `cd {wt} && go build -o /tmp/murex-seed-{pid} .` and run code with `MUREX_TEST=1 HOME=/tmp/mxhome-{pid} /tmp/murex-seed-{pid} -c '<murex code>'`. Run the existing tests of the packages you touched with `go test -vet=off -count=1 ./path/...`, and before you finish run the whole suite once per change: `cd {wt} && go test -mod=mod -vet=off -count=1 -timeout 25m ./... 2>&1 | grep -v '^ok\\|no test files' | tail -30` (two tests fail already on the untouched tree: note which ones first by running the suite on the untouched worktree, they don't count).

Deliver, in the directory {wt}-out/ (create it): for change k=1..{n}: `k/patch.diff` (output of `git -C {wt} diff` for that change alone, applying cleanly to HEAD with `git apply`), `k/demo/` (the demonstration file(s) and a `run.sh` that exits non-zero when the property is violated; it receives the path of a murex source tree as $1 and must build/run against it), `k/notes.md` (what was changed, why it breaks the property, exactly what is needed for it to manifest, and the output of the demonstration with and without the change). Reset the worktree to HEAD between changes (`git -C {wt} checkout -- . && git -C {wt} clean -fd`) and at the end. Remove /tmp/murex-seed-{pid} at the end. Your final message: for each change a 3-line summary (file/function changed, trigger, demo result with/without, full-suite result).""")
