#!/bin/bash
# Runs the pinned baseline test suite of /repo (guard OFF) and compares with /root/.vp/BASELINE.json.
# usage: tools/run_baseline.sh [repo_dir]
R=${1:-/repo}
export GOFLAGS=-mod=mod GOPROXY=off
OUT=$(mktemp /tmp/baseline.XXXXXX.json)
(cd "$R" && go test -mod=mod -json -vet=off -count=1 -timeout 25m ./... > "$OUT" 2>/dev/null)
python3 - "$OUT" <<'P'
import json,sys,collections
res={}
for l in open(sys.argv[1]):
    try: e=json.loads(l)
    except Exception: continue
    if e.get('Test') and e['Action'] in('pass','fail','skip'):
        res[e['Package']+'::'+e['Test']]=e['Action']
b=json.load(open('/root/.vp/BASELINE.json'))['stable_pass']
print(dict(collections.Counter(res.values())))
bad=[t for t in b if res.get(t)!='pass']
print('baseline tests not passing:',len(bad))
for t in bad: print('  ',t,res.get(t))
sys.exit(1 if bad else 0)
P
rc=$?; rm -f "$OUT"; exit $rc
