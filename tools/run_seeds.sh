#!/bin/bash
# tools/run_seeds.sh /tmp/seed-X-out : copies each delivered change into /verif/seeded/<Cxx>-<k>/ (next free k) and tries it
for d in "$1"/C*-*/; do
  src=$(basename "$d"); pid=${src%%-*}
  [ -f "$d/.imported" ] && continue
  k=1; while [ -e /verif/seeded/$pid-$k ]; do k=$((k+1)); done
  id=$pid-$k; dst=/verif/seeded/$id
  mkdir -p "$dst"; cp -r "$d"/* "$dst"/ 2>/dev/null; echo "$id" > "$d/.imported"
  demo=""; [ -f "$dst/demo/run.sh" ] && demo="$dst/demo/run.sh"
  echo "### $id $(date +%T)"
  /verif/tools/try_seed.sh "$pid" "$dst/patch.diff" $demo > "$dst/result.log" 2>&1
  grep -E "exit=|VIOLATION|KNOWN|^OK" "$dst/result.log" | cut -c1-120 | head -12
done
