#!/bin/bash
# tools/run_seeds.sh /tmp/seed-X-out : copies each delivered change into /verif/seeded/<id>/ and tries it
for d in "$1"/C*-*/; do
  id=$(basename "$d"); pid=${id%%-*}
  dst=/verif/seeded/$id
  [ -f "$dst/result.log" ] && continue
  mkdir -p "$dst"; cp -r "$d"/* "$dst"/ 2>/dev/null
  demo=""; [ -f "$dst/demo/run.sh" ] && demo="$dst/demo/run.sh"
  echo "### $id $(date +%T)"
  /verif/tools/try_seed.sh "$pid" "$dst/patch.diff" $demo > "$dst/result.log" 2>&1
  grep -E "exit=|VIOLATION|KNOWN|^OK" "$dst/result.log" | head -12
done
