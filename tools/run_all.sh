#!/bin/bash
# tools/run_all.sh [tier] : run every claimed check sequentially, print one line per check
cd /verif; TIER=${1:-quick}
for p in $(ls props | grep '^C' | sed 's/.json//'); do
  s=$(date +%s); out=$(./check $p --tier $TIER 2>/tmp/runall-$p.err); rc=$?; e=$(date +%s)
  echo "$p rc=$rc $((e-s))s $(echo "$out" | grep -c KNOWN-FINDING) known | $(echo "$out" | grep -E 'VIOLATION|^OK' | head -2 | tr '\n' ' ')"
done
