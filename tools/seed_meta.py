#!/usr/bin/env python3
"""tools/seed_meta.py : (re)writes seeded/<id>/meta.json from notes.md and result.log (keeps hand-written fields)"""
import json,os,re,glob
def section(txt, keys):
    parts=re.split(r'^#+\s*(.*)$', txt, flags=re.M)
    # parts: [pre, h1, body1, h2, body2...]
    for i in range(1,len(parts),2):
        if any(k in parts[i].lower() for k in keys):
            body=parts[i+1].strip()
            return re.sub(r'\s+',' ',body)[:700]
    return None
for d in sorted(glob.glob('/verif/seeded/C*-*')):
    sid=os.path.basename(d); pid=sid.split('-')[0]
    mp=os.path.join(d,'meta.json')
    meta=json.load(open(mp)) if os.path.exists(mp) else {}
    notes=open(os.path.join(d,'notes.md')).read() if os.path.exists(os.path.join(d,'notes.md')) else ''
    meta.setdefault('property',pid)
    meta.setdefault('source','independent sub-agent given only the property text and a scratch worktree of /repo')
    if 'change' not in meta:
        meta['change']=section(notes,['change','what was changed','what changed']) or re.sub(r'\s+',' ',notes[:500])
    if 'needs' not in meta:
        meta['needs']=section(notes,['manifest','trigger','needed','needs']) or ''
    rl=os.path.join(d,'result.log')
    if os.path.exists(rl):
        r=open(rl).read()
        ex=re.findall(r'exit=(\d+)',r)
        viol=re.findall(r'^VIOLATION.*$',r,re.M)
        ok=re.findall(r'^OK property.*$',r,re.M)
        meta['ran']='tools/try_seed.sh %s seeded/%s/patch.diff seeded/%s/demo/run.sh  (scratch worktree of /repo HEAD; demo on unchanged tree, patch applied, go build ./..., demo on changed tree, VERIF_REPO=<worktree> ./check %s --tier quick)'%(pid,sid,sid,pid)
        if len(ex)>=2: meta['demo']='exit %s on the unchanged tree, exit %s on the changed tree'%(ex[0],ex[1])
        if 'check_result_final' not in meta:
            meta['check_result']=('VIOLATION reported (%d replay file(s)): %s'%(len(viol),viol[0]) if viol else ('NOT caught: '+ok[0] if ok else 'inconclusive (see result.log)'))
    json.dump(meta,open(mp,'w'),indent=1); 
    print(sid, meta.get('check_result_final') or meta.get('check_result','?')[:60])
